import numpy as np, itertools, math
from xfab import tools, laue
np.seterr(all='raise')
angs=[30,45,60,75,90,105,120,135,150]
lens=[(1,1,1),(3,4,5),(0.5,7,20),(10,2.5,2.5)]
worst={}
def upd(k,v,info):
    if v>worst.get(k,(0,))[0]: worst[k]=(v,info)
cnt=0
for (a,b,c) in lens:
  for al,be,ga in itertools.product(angs,repeat=3):
    ca,cb,cg=[math.cos(math.radians(x)) for x in (al,be,ga)]
    gram=1-ca*ca-cb*cb-cg*cg+2*ca*cb*cg
    if gram<0.02: continue
    cnt+=1
    cell=[a,b,c,al,be,ga]
    G=np.array([[a*a,a*b*cg,a*c*cb],[a*b*cg,b*b,b*c*ca],[a*c*cb,b*c*ca,c*c]])
    Gi=np.linalg.inv(G)
    for mod,f in ((tools,2*np.pi),(laue,1.0)):
        A=mod.form_a_mat(cell); B=mod.form_b_mat(cell)
        upd('AtA',np.abs(A.T@A-G).max()/np.abs(G).max(),cell)
        upd('BtB',np.abs(B.T@B/f/f-Gi).max()/np.abs(Gi).max(),cell)
        upd('vol',abs(np.linalg.det(A)-mod.cell_volume(cell))/mod.cell_volume(cell),cell)
        upd('vol2',abs(math.sqrt(np.linalg.det(G))-mod.cell_volume(cell))/mod.cell_volume(cell),cell)
        assert A[1,0]==0 and A[2,0]==0 and A[2,1]==0 and all(np.diag(A)>0)
        assert B[1,0]==0 and B[2,0]==0 and B[2,1]==0 and all(np.diag(B)>0)
        c2=mod.a_to_cell(A); upd('a2c',max(abs(np.array(c2)-cell)/np.array([a,b,c,1,1,1])),cell)
        c3=mod.b_to_cell(B); upd('b2c',max(abs(np.array(c3)-cell)/np.array([a,b,c,1,1,1])),cell)
        c4=mod.cell_invert(mod.cell_invert(cell)); upd('inv2',max(abs(np.array(c4)-cell)/np.array([a,b,c,1,1,1])),cell)
        Ai=mod.form_a_mat_inv(cell); upd('Ainv',np.abs(Ai@A-np.eye(3)).max(),cell)
        for hkl in [(1,0,0),(0,1,0),(0,0,1),(1,1,1),(-2,1,3),(3,-3,1),(1,2,-3)]:
            h=np.array(hkl,float)
            s=mod.sintl(cell,hkl); ref=math.sqrt(h@Gi@h)/2
            upd('stl',abs(s-ref)/ref,(cell,hkl))
            upd('stlB',abs(np.linalg.norm(B@h)/(2*f)-s)/ref,(cell,hkl))
print(cnt)
for k,v in worst.items(): print(k,v)
