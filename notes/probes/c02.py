import numpy as np, itertools, math
from xfab import tools, laue
def quat_rots(N):
    seen={}
    for q in itertools.product(range(-N,N+1),repeat=4):
        if q==(0,0,0,0): continue
        g=math.gcd(*q)
        q=tuple(x//g for x in q)
        # sign-normalise
        for x in q:
            if x!=0:
                if x<0: q=tuple(-y for y in q)
                break
        if q in seen: continue
        w,x,y,z=q; nn=w*w+x*x+y*y+z*z
        R=np.array([[w*w+x*x-y*y-z*z,2*(x*y-w*z),2*(x*z+w*y)],[2*(x*y+w*z),w*w-x*x+y*y-z*z,2*(y*z-w*x)],[2*(x*z-w*y),2*(y*z+w*x),w*w-x*x-y*y+z*z]])/nn
        seen[q]=R
    return seen
R=quat_rots(2); print(len(R))
angs=[45,60,90,105,135]
cells=[]
for (a,b,c) in [(3,4,5),(0.5,7,20)]:
  for al,be,ga in itertools.product(angs,repeat=3):
    ca,cb,cg=[math.cos(math.radians(x)) for x in (al,be,ga)]
    if 1-ca*ca-cb*cb-cg*cg+2*ca*cb*cg<0.02: continue
    cells.append([a,b,c,al,be,ga])
print(len(cells))
worst={}
def upd(k,v,info):
    if v>worst.get(k,(-1,))[0]: worst[k]=(v,info)
for mod,f in ((tools,2*np.pi),(laue,1.0)):
  for q,U in R.items():
    for cell in cells:
        B=mod.form_b_mat(cell)
        ubi=mod.u_to_ubi(U,cell)
        U2=mod.ubi_to_u(ubi); upd('u',np.abs(U2-U).max(),(q,cell))
        c2=mod.ubi_to_cell(ubi); upd('cell',np.abs((np.array(c2)-cell)/np.array(cell[:3]+[1,1,1])).max(),(q,cell))
        U3,B3=mod.ubi_to_u_b(ubi); upd('u3',np.abs(U3-U).max(),(q,cell)); upd('b3',np.abs(B3-B).max()/np.abs(B).max(),(q,cell))
        for hkl in [(1,0,0),(0,1,0),(0,0,1),(1,2,-3)]:
            g=U@B@np.array(hkl,float)
            upd('hkl',np.abs(ubi@g/f-hkl).max(),(q,cell,hkl))
        ttt=1+np.trace(U)
        if abs(ttt)>1e-6:
            upd('rod',np.abs(mod.ubi_to_rod(ubi)-mod.u_to_rod(U)).max()/(1+np.abs(mod.u_to_rod(U)).max()),(q,cell))
for k,v in worst.items(): print(k,v)
