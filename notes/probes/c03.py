import numpy as np, itertools, math
from xfab import tools, laue
import xfab
worst=(0,None); fails=[]
phis=[0,0.1,0.7,math.pi/2,2.0,math.pi,4.0,3*math.pi/2,6.0,2*math.pi]
for base in (0,math.pi):
  for d in [0,1e-12,1e-10,1e-9,5e-9,1e-8,2e-8,5e-8,1e-7,1e-6,1e-5,1e-4,1e-3]:
    PHI = base+d if base==0 else base-d
    for p1 in phis:
      for p2 in phis:
        U=tools.euler_to_u(p1,PHI,p2)
        try:
            e=tools.u_to_euler(U)
            U2=tools.euler_to_u(*e)
            err=np.abs(U-U2).max()
        except Exception as ex:
            err=float('inf'); e=repr(ex)
        if err>1e-6: fails.append((base,d,p1,p2,err,e))
print(len(fails))
for f in fails[:40]: print(f)
import collections
print(collections.Counter((f[0],f[1]) for f in fails))
