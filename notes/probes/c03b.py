import numpy as np, itertools, math, sys
from xfab import tools, laue
def quat_rots(N):
    seen={}
    for q in itertools.product(range(-N,N+1),repeat=4):
        if q==(0,0,0,0): continue
        g=math.gcd(*q); q=tuple(x//g for x in q)
        for x in q:
            if x!=0:
                if x<0: q=tuple(-y for y in q)
                break
        if q in seen: continue
        w,x,y,z=q; nn=w*w+x*x+y*y+z*z
        seen[q]=np.array([[w*w+x*x-y*y-z*z,2*(x*y-w*z),2*(x*z+w*y)],[2*(x*y+w*z),w*w-x*x+y*y-z*z,2*(y*z-w*x)],[2*(x*z-w*y),2*(y*z+w*x),w*w-x*x-y*y+z*z]])/nn
    return seen
def Rx(a): return np.array([[1,0,0],[0,math.cos(a),-math.sin(a)],[0,math.sin(a),math.cos(a)]])
def Rz(a): return np.array([[math.cos(a),-math.sin(a),0],[math.sin(a),math.cos(a),0],[0,0,1]])
band=[0,1e-12,1e-10,1e-9,3e-9,1e-8,1.05e-8,1.5e-8,2e-8,5e-8,1e-7,3e-7,1e-6,1e-5,1e-4,1e-3]
phis=[k*math.pi/6 for k in range(13)]+[0.1,1e-9,2*math.pi-1e-9]
worst=(0,None);n=0;fails=[]
def test(U,tag,mod):
    global worst,n
    n+=1
    try:
        e=mod.u_to_euler(U)
        ok=(0<=e[0]<=2*math.pi and 0<=e[1]<=math.pi and 0<=e[2]<=2*math.pi)
        U2=Rz(e[0])@Rx(e[1])@Rz(e[2])
        err=np.abs(U-U2).max()
    except Exception as ex:
        err=9; ok=False; e=repr(ex)
    if err>worst[0]: worst=(err,tag)
    if err>1e-6 or not ok: fails.append((tag,err,e))
for mod in (tools,laue):
    for base in (0,math.pi):
        for d in band:
            PHI=base+d if base==0 else base-d
            for p1 in phis:
                for p2 in phis:
                    test(Rz(p1)@Rx(PHI)@Rz(p2),('band',base,d,p1,p2),mod)
    for q,U in quat_rots(3).items(): test(U,('quat',q),mod)
    # general grid
    g=[k*math.pi/12 for k in range(25)]
    for p1,P,p2 in itertools.product(g,g[:13],g): test(Rz(p1)@Rx(P)@Rz(p2),('grid',p1,P,p2),mod)
print(n,worst,len(fails)); print(fails[:5])
