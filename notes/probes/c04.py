import numpy as np, itertools, math
from fractions import Fraction as F
from xfab import sg, sglib
def tofrac(t):
    return tuple(F(round(x*12),12)%1 for x in t)
issues=[]
settings=[(i,'standard') for i in range(1,231)]+[(i,'rhombohedral') for i in (146,148,155,160,161,166,167)]
laue_order={'-1':2,'2/m':4,'mmm':8,'4/m':8,'4/mmm':16,'-3':6,'-3m':12,'-3m1':12,'-31m':12,'6/m':12,'6/mmm':24,'m-3':24,'m-3m':48}
lau=set()
for no,cc in settings:
    g=sg.sg(sgno=no,cell_choice=cc)
    ops=[(tuple(map(tuple,np.array(r).astype(int))),tofrac(t)) for r,t in zip(g.rot,g.trans)]
    for r,t in zip(g.rot,g.trans):
        for x in t:
            if abs(x*12-round(x*12))>1e-4: issues.append((no,cc,'trans not /12',t))
    if len(ops)!=g.nsymop: issues.append((no,cc,'nsymop',len(ops),g.nsymop))
    if len(set(ops))!=len(ops): issues.append((no,cc,'dups'))
    S=set(ops)
    I=((1,0,0),(0,1,0),(0,0,1))
    if (I,(0,0,0)) not in S: issues.append((no,cc,'no identity'))
    def comp(a,b):
        R1,t1=a;R2,t2=b
        R=tuple(tuple(sum(R1[i][k]*R2[k][j] for k in range(3)) for j in range(3)) for i in range(3))
        t=tuple((sum(R1[i][k]*t2[k] for k in range(3))+t1[i])%1 for i in range(3))
        return (R,t)
    bad=0
    for a in ops:
        for b in ops:
            if comp(a,b) not in S: bad+=1
    if bad: issues.append((no,cc,'not closed',bad))
    rots=[o[0] for o in ops]
    uniq=list(dict.fromkeys(rots))
    if len(uniq)!=g.nuniq: issues.append((no,cc,'nuniq',len(uniq),g.nuniq))
    if rots[:g.nuniq]!=uniq: issues.append((no,cc,'first nuniq not distinct rots'))
    ncen=len([o for o in ops if o[0]==I])
    if g.nsymop!=g.nuniq*ncen: issues.append((no,cc,'nsymop!=nuniq*ncen'))
    # Laue order
    pg=set(uniq)|set(tuple(tuple(-x for x in row) for row in r) for r in uniq)
    lau.add(g.Laue)
    if len(pg)!=laue_order.get(g.Laue): issues.append((no,cc,'laue',g.Laue,len(pg)))
    for r in uniq:
        d=round(np.linalg.det(np.array(r)))
        if abs(d)!=1: issues.append((no,cc,'det'))
print(lau)
print(len(issues))
for i in issues[:50]: print(i)
