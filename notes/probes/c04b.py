import numpy as np, itertools, math, warnings
warnings.simplefilter('ignore')
from fractions import Fraction as F
from xfab import sg, sglib
settings=[(i,'standard') for i in range(1,231)]+[(i,'rhombohedral') for i in (146,148,155,160,161,166,167)]
def basis(cs,cc):
    E=lambda i,j: np.array([[1 if (r,c) in ((i,j),(j,i)) else 0 for c in range(3)] for r in range(3)])
    if cs=='triclinic': return [E(0,0),E(1,1),E(2,2),E(0,1),E(0,2),E(1,2)]
    if cs=='monoclinic': return [E(0,0),E(1,1),E(2,2),E(0,2)]
    if cs=='orthorhombic': return [E(0,0),E(1,1),E(2,2)]
    if cs=='tetragonal': return [E(0,0)+E(1,1),E(2,2)]
    if cs in('trigonal','hexagonal'):
        if cc=='rhombohedral': return [np.eye(3,dtype=int),np.ones((3,3),dtype=int)-np.eye(3,dtype=int)]
        return [2*E(0,0)+2*E(1,1)-E(0,1),E(2,2)]
    if cs=='cubic': return [np.eye(3,dtype=int)]
issues=[]
import collections
cnt=collections.Counter()
rng={'triclinic':(1,2),'monoclinic':(3,15),'orthorhombic':(16,74),'tetragonal':(75,142),'trigonal':(143,167),'hexagonal':(168,194),'cubic':(195,230)}
for no,cc in settings:
    g=sg.sg(sgno=no,cell_choice=cc)
    cnt[(g.crystal_system,g.cell_choice,g.Laue)]+=1
    lo,hi=rng[g.crystal_system]
    if not lo<=no<=hi: issues.append((no,cc,'crystal system',g.crystal_system))
    for G in basis(g.crystal_system,g.cell_choice):
        for R in g.rot[:g.nuniq]:
            R=np.array(R).astype(int)
            if not (R.T@G@R==G).all(): issues.append((no,cc,'metric',R.tolist())); break
    if g.no!=no: issues.append((no,cc,'no'))
print(cnt)
print(len(issues)); print(issues[:20])
# names
bad=[]
for name,kl in sg.sgdic.items():
    no=int(kl[2:])
    g=sg.sg(sgname=name)
    cc='rhombohedral' if (name[0]=='r' and name[-1]=='r') else 'standard'
    h=sg.sg(sgno=no,cell_choice=cc)
    same=(g.no==h.no and g.name==h.name and (g.rot==h.rot).all() and (g.trans==h.trans).all() and g.cell_choice==h.cell_choice and (g.syscond==h.syscond).all() and g.Laue==h.Laue)
    if not same: bad.append(name)
    # name attribute normalised should be a key mapping to same class
    nm=g.name.replace(' ','').lower()
    if sg.sgdic.get(nm)!=kl: bad.append(('nameattr',name,g.name))
print(bad)
print(len(sg.sgdic))
missing=[i for i in range(1,231) if 'Sg%d'%i not in sg.sgdic.values()]
print(missing)
