import numpy as np, itertools, math, warnings, sys, time
warnings.simplefilter('ignore')
from fractions import Fraction as F
from xfab import sg, tools
import logging
settings=[(i,'standard') for i in range(1,231)]+[(i,'rhombohedral') for i in (146,148,155,160,161,166,167)]
def cell_for(cs,cc,variant=0):
    if cs=='triclinic': return [[5.1,6.3,7.7,82.,97.,104.],[5.1,6.3,7.7,90.,90.,90.]][variant%2]
    if cs=='monoclinic': return [[5.1,6.3,7.7,90.,104.,90.],[5.1,6.3,7.7,90.,90.,90.]][variant%2]
    if cs=='orthorhombic': return [5.1,6.3,7.7,90.,90.,90.]
    if cs=='tetragonal': return [5.1,5.1,7.7,90.,90.,90.]
    if cs in ('trigonal','hexagonal'):
        if cc=='rhombohedral': return [5.1,5.1,5.1,75.,75.,75.]
        return [5.1,5.1,7.7,90.,90.,120.]
    if cs=='cubic': return [5.1,5.1,5.1,90.,90.,90.]
def oracle(g,cell,smin,smax,N):
    ops=[(np.array(r).astype(int),[F(round(x*12),12) for x in t]) for r,t in zip(g.rot,g.trans)]
    out=set()
    for h in itertools.product(range(-N,N+1),repeat=3):
        if h==(0,0,0): continue
        s=tools.sintl(cell,h)
        if not (smin<s<=smax): continue
        hv=np.array(h)
        ext=False
        for R,t in ops:
            if (hv@R==hv).all():
                ph=sum(int(hv[i])*t[i] for i in range(3))
                if ph%1!=0: ext=True;break
        if not ext: out.add(h)
    return out
if __name__=='__main__':
    smax=float(sys.argv[1]) if len(sys.argv)>1 else 0.45
    variant=int(sys.argv[2]) if len(sys.argv)>2 else 0
    bad=[]
    t0=time.time()
    for no,cc in settings:
        g=sg.sg(sgno=no,cell_choice=cc)
        cell=cell_for(g.crystal_system,g.cell_choice,variant)
        N=int(math.ceil(2*smax*max(cell[:3])*1.6))+1
        ref=oracle(g,cell,0.0,smax,N)
        H=tools.genhkl_all(cell,0.0,smax,sgno=no,cell_choice=cc)
        got=[tuple(int(round(x)) for x in r) for r in H]
        sgot=set(got)
        U=tools.genhkl_unique(cell,0.0,smax,sgno=no,cell_choice=cc)
        if len(got)!=len(sgot) or sgot!=ref:
            bad.append((no,cc,g.name,len(ref),len(got),len(sgot),sorted(ref-sgot)[:4],sorted(sgot-ref)[:4]))
    print(time.time()-t0)
    print(len(bad))
    for b in bad: print(b)
