import numpy as np, itertools, math, warnings, sys, time
warnings.simplefilter('ignore')
from fractions import Fraction as F
from xfab import sg, tools
from multiprocessing import Pool
from c05 import cell_for, oracle, settings
def run(args):
    no,cc,smin,smax,variant=args
    g=sg.sg(sgno=no,cell_choice=cc)
    cell=cell_for(g.crystal_system,g.cell_choice,variant)
    N=int(math.ceil(2*smax*max(cell[:3])*1.6))+1
    ref=oracle(g,cell,smin,smax,N)
    H=tools.genhkl_all(cell,smin,smax,sgno=no,cell_choice=cc,output_stl=True)
    got=[tuple(int(round(x)) for x in r[:3]) for r in H]
    sgot=set(got)
    out=[]
    if len(got)!=len(sgot): out.append('dups in all')
    if sgot!=ref: out.append(('all', sorted(ref-sgot,key=lambda h:tools.sintl(cell,h))[:3],sorted(sgot-ref,key=lambda h:tools.sintl(cell,h))[:3]))
    # sorted?
    st=H[:,3]
    if (np.diff(st)<0).any(): out.append('all not sorted')
    for r in H:
        if abs(r[3]-tools.sintl(cell,r[:3]))>1e-12: out.append('stl col'); break
    U=tools.genhkl_unique(cell,smin,smax,sgno=no,cell_choice=cc,output_stl=True)
    if (np.diff(U[:,3])<0).any(): out.append('uniq not sorted')
    pg=[np.array(r).astype(int) for r in g.rot[:g.nuniq]]; pg=pg+[-r for r in pg]
    fam=lambda h: frozenset(tuple(int(x) for x in np.array(h)@R) for R in pg)
    ufams=[fam(tuple(int(round(x)) for x in r[:3])) for r in U]
    if len(set(ufams))!=len(ufams): out.append(('uniq repeats family',))
    un=set().union(*ufams) if ufams else set()
    if un!=sgot: out.append(('union of unique families != all',len(un),len(sgot)))
    reff=set(fam(h) for h in ref)
    if set(ufams)!=reff: out.append(('unique families != oracle families',len(set(ufams)-reff),len(reff-set(ufams))))
    return (no,cc,g.name,out)
if __name__=='__main__':
    smin=float(sys.argv[1]); smax=float(sys.argv[2]); variant=int(sys.argv[3])
    t0=time.time()
    with Pool(16) as p:
        res=p.map(run,[(no,cc,smin,smax,variant) for no,cc in settings],chunksize=1)
    print(time.time()-t0)
    for r in res:
        if r[3]: print(r)
