import numpy as np, itertools, math, warnings, sys, time
warnings.simplefilter('ignore')
from xfab import sg, tools
from multiprocessing import Pool
from c05 import oracle
def run(args):
    no,cc,cell,smin,smax=args
    g=sg.sg(sgno=no,cell_choice=cc)
    rc=tools.cell_invert(cell)
    N=int(math.ceil(2*smax*max(cell[:3])/math.sqrt(max(1e-3,1-sum(math.cos(math.radians(x))**2 for x in cell[3:])+2*np.prod([math.cos(math.radians(x)) for x in cell[3:]]))) ))+2
    ref=oracle(g,cell,smin,smax,N)
    H=tools.genhkl_all(cell,smin,smax,sgno=no,cell_choice=cc)
    got=[tuple(int(round(x)) for x in r[:3]) for r in H]
    sgot=set(got)
    return (no,cc,cell,len(ref),len(ref-sgot),len(sgot-ref),len(got)-len(sgot),sorted(ref-sgot,key=lambda h:tools.sintl(cell,h))[:2])
if __name__=='__main__':
    jobs=[]
    angs=[60,75,90,105,120]
    for al,be,ga in itertools.product(angs,repeat=3):
        ca,cb,cg=[math.cos(math.radians(x)) for x in (al,be,ga)]
        if 1-ca*ca-cb*cb-cg*cg+2*ca*cb*cg<0.1: continue
        jobs.append((1,'standard',[5.1,6.3,7.7,al,be,ga],0.0,0.35))
    for be in [60,75,90,105,120,135]:
        jobs.append((3,'standard',[5.1,6.3,7.7,90,be,90],0.0,0.45))
        jobs.append((14,'standard',[5.1,6.3,7.7,90,be,90],0.0,0.45))
    for al in [50,60,75,90,100,110,115]:
        for no in (146,148,155,160,161,166,167):
            jobs.append((no,'rhombohedral',[5.1,5.1,5.1,al,al,al],0.0,0.5))
    t0=time.time()
    with Pool(16) as p: res=p.map(run,jobs,chunksize=1)
    print(time.time()-t0,len(jobs))
    for r in res:
        if r[4] or r[5] or r[6]: print(r)
