import numpy as np, itertools, math, warnings, sys, time
warnings.simplefilter('ignore')
from xfab import sg, tools, sglib
from multiprocessing import Pool
from c05 import cell_for, oracle
import c05b
# candidate table fixes: slot indices
HHL_L=7; KL0_L=11; H0L_L=14; HH0=19; HmHL_L=24
def patch():
    def wrap(no,f):
        K=getattr(sglib,'Sg%d'%no); old=K.__init__
        def init(self,cell_choice='standard'):
            old(self,cell_choice); f(self.syscond)
        K.__init__=init
    def f185(s): s[HmHL_L]=2
    def f186(s): s[KL0_L]=0; s[H0L_L]=0
    wrap(185,f185); wrap(188,f185); wrap(186,f186); wrap(190,f186)
    def rm(s): s[HH0]=0
    wrap(211,rm); wrap(224,rm)
    def two(s): s[HH0]=2
    wrap(220,two); wrap(230,two); wrap(228,two)
patch()
if __name__=='__main__':
    jobs=[(no,'standard',0.0,0.8,0) for no in (185,186,188,190,211,224,220,230,228,184,192,193,194)]
    with Pool(16,initializer=patch) as p: res=p.map(c05b.run,jobs,chunksize=1)
    for r in res: print(r)
