import numpy as np, itertools, math, warnings, sys, time
warnings.simplefilter('ignore')
from xfab import sg, tools, sglib
from multiprocessing import Pool
import c05b, c05d
def patch2():
    c05d.patch()
    old=tools.sysabs
    def sysabs(hkl, syscond, crystal_system='triclinic', cell_choice='standard'):
        if crystal_system=='cubic': return old(hkl,syscond,crystal_system,'rhombohedral')
        return old(hkl,syscond,crystal_system,cell_choice)
    tools.sysabs=sysabs
if __name__=='__main__':
    jobs=[(no,'standard',0.0,0.9,0) for no in range(195,231)]
    with Pool(16,initializer=patch2) as p: res=p.map(c05b.run,jobs,chunksize=1)
    for r in res:
        if r[3]: print(r)
    print('done')
