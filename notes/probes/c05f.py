import numpy as np, itertools, math, warnings, sys, time
warnings.simplefilter('ignore')
from xfab import sg, tools, laue
from multiprocessing import Pool
from c05 import oracle
def run(a):
    modname,no,cc,cell,smin,smax=a
    mod=tools if modname=='tools' else laue
    g=sg.sg(sgno=no,cell_choice=cc)
    ca,cb,cg=[math.cos(math.radians(x)) for x in cell[3:]]
    N=int(max(2*smax*x for x in cell[:3]))+1
    ref=oracle(g,cell,smin,smax,N)
    H=mod.genhkl_all(cell,smin,smax,sgno=no,cell_choice=cc)
    got=[tuple(int(round(x)) for x in r[:3]) for r in H]; sgot=set(got)
    U=mod.genhkl_unique(cell,smin,smax,sgno=no,cell_choice=cc)
    pg=[np.array(r).astype(int) for r in g.rot[:g.nuniq]]; pg=pg+[-r for r in pg]
    fam=lambda h: frozenset(tuple(int(x) for x in np.array(h)@R) for R in pg)
    uf=[fam(tuple(int(round(x)) for x in r[:3])) for r in U]
    ok = (len(got)==len(sgot) and sgot==ref and len(set(uf))==len(uf) and set(uf)==set(fam(h) for h in ref))
    return (a,ok,len(ref),len(ref-sgot),len(sgot-ref))
if __name__=='__main__':
    jobs=[]
    for al in (50,60,75,90,100,110,115):
        for no in (146,148,155,160,161,166,167):
            for smax in (0.3,0.37,0.43,0.45,0.47,0.5,0.55,0.6,0.66):
                jobs.append(('tools',no,'rhombohedral',[5.1,5.1,5.1,al,al,al],0.0,smax))
    for cell in ([5.1,6.3,7.7,60,75,110],[5.1,6.3,7.7,120,60,75],[4.0,9.0,5.5,100,115,95],[5.1,6.3,7.7,90,90,90]):
        for smax in (0.3,0.41,0.5):
            for mod in ('tools','laue'):
                jobs.append((mod,1,'standard',cell,0.05,smax)); jobs.append((mod,2,'standard',cell,0.0,smax))
    for be in (60,75,90,104,120,135,150):
        for no in range(3,16):
            jobs.append(('laue',no,'standard',[5.1,6.3,7.7,90,be,90],0.0,0.5))
    t0=time.time()
    with Pool(16) as p: res=p.map(run,jobs,chunksize=1)
    print(len(jobs),time.time()-t0, sum(r[2] for r in res))
    bad=[r for r in res if not r[1]]; print(len(bad)); print(bad[:5])
