import numpy as np, itertools, math, warnings, sys, time
warnings.simplefilter('ignore')
from xfab import sg, tools, structure
from c05 import cell_for
from fractions import Fraction as F
class A: pass
def mk(pos,typ='FE',adp_type='Uiso',adp=0.01,occ=1.0,symmulti=None):
    a=structure.atom_entry(label='x',atomtype=typ,pos=pos,adp_type=adp_type,adp=adp,occ=occ,symmulti=symmulti); return a
names={}
for k,v in sg.sgdic.items():
    no=int(v[2:]); 
    if k[-1] in 'hr' and k[0]=='r' and len(k)>2 and k[:-1] in sg.sgdic: continue
    names.setdefault(no,k)
res=[]
hkls=[(1,0,0),(0,1,0),(0,0,1),(1,1,0),(1,0,1),(0,1,1),(1,1,1),(2,1,0),(1,2,3),(-2,1,3),(3,-1,2),(2,2,1),(0,0,2),(0,0,3),(3,0,0),(1,-1,2),(2,-1,0)]
for no in range(1,231):
    name=names[no]
    g=sg.sg(sgname=name)
    cell=cell_for(g.crystal_system,g.cell_choice,0)
    for adpt in ('Uiso','Uani'):
        pos=[0.1234,0.2345,0.3456]
        if adpt=='Uani':
            # positive-definite U
            adp=[0.010,0.020,0.015,0.003,-0.004,0.005]
        else: adp=0.012
        atoms=[mk(pos,'FE',adpt,adp,0.8,g.nsymop), mk([0.41,0.07,0.77],'O',adpt,adp,1.0,g.nsymop)]
        worst=0;wh=None;scale=0.8*26+8
        for h in hkls:
            Fh=complex(*structure.StructureFactor(h,cell,name,atoms))
            for R,t in zip(g.rot,g.trans):
                hR=tuple(int(x) for x in np.array(h)@np.array(R).astype(int))
                FR=complex(*structure.StructureFactor(hR,cell,name,atoms))
                ph=np.exp(-2j*np.pi*np.dot(h,t))
                e=abs(FR-Fh*ph)/scale
                if e>worst: worst=e;wh=(h,hR)
            Fm=complex(*structure.StructureFactor(tuple(-x for x in h),cell,name,atoms))
            e=abs(Fm-Fh.conjugate())/scale
            if e>worst: worst=e; wh=(h,'friedel')
        res.append((no,name,adpt,worst,wh))
for r in res:
    if r[3]>1e-4: print(r)
print(max(r[3] for r in res if r[2]=='Uiso'))
