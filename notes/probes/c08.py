import numpy as np, itertools, math, warnings, sys, time
warnings.simplefilter('ignore')
from xfab import sg, tools, structure, atomlib
from c05 import cell_for
from c07 import names, mk
def ff(typ,s):
    d=atomlib.formfactor[typ]; return sum(d[i]*math.exp(-d[i+4]*s*s) for i in range(4))+d[8]
def oracle(h,cell,g,atoms,disp):
    a,b,c=cell[:3]; ca,cb,cg=[math.cos(math.radians(x)) for x in cell[3:]]
    G=np.array([[a*a,a*b*cg,a*c*cb],[a*b*cg,b*b,b*c*ca],[a*c*cb,b*c*ca,c*c]]); Gi=np.linalg.inv(G)
    hv=np.array(h,float); s=math.sqrt(hv@Gi@hv)/2
    Ftot=0
    for at in atoms:
        f=ff(at.atomtype,s)
        if disp and disp.get(at.atomtype): f=f+disp[at.atomtype][0]+1j*disp[at.atomtype][1]
        # distinct images
        imgs={}
        for R,t in zip(g.rot,g.trans):
            R=np.array(R).astype(int)
            r=R@np.array(at.pos)+t
            key=tuple(np.round(np.mod(r+1e-9,1),6))
            if key in imgs: continue
            imgs[key]=(r,R)
        for r,R in imgs.values():
            if at.adp_type=='Uiso': dw=math.exp(-8*math.pi**2*at.adp*s*s)
            elif at.adp_type=='Uani':
                u=at.adp; U=np.array([[u[0],u[5],u[4]],[u[5],u[1],u[3]],[u[4],u[3],u[2]]])
                # U in the reciprocal-axis-normalised basis: beta_ij = 2pi^2 a*_i a*_j U_ij
                astar=np.sqrt(np.diag(Gi)); beta=2*math.pi**2*np.outer(astar,astar)*U
                br=R@beta@R.T
                dw=math.exp(-hv@br@hv)
            else: dw=1
            Ftot+=at.occ*f*dw*np.exp(2j*math.pi*hv@r)
    return Ftot
if __name__=='__main__':
    hkls=[(0,0,0),(1,0,0),(0,1,0),(0,0,1),(1,1,0),(1,1,1),(2,1,0),(1,2,3),(-2,1,3),(3,-1,2),(0,0,2)]
    worst=[]
    for no in range(1,231):
        name=names[no]; g=sg.sg(sgname=name); cell=cell_for(g.crystal_system,g.cell_choice,0)
        for adpt,adp in (('Uiso',0.012),('Uani',[0.010,0.020,0.015,0.003,-0.004,0.005]),(None,None)):
            atoms=[mk([0.1234,0.2345,0.3456],'FE',adpt,adp,0.8,g.nsymop), mk([0.41,0.07,0.77],'O',adpt,adp,1.0,g.nsymop)]
            disp={'FE':[0.35,0.85],'O':None}
            w=0
            for h in hkls:
                Fc=complex(*structure.StructureFactor(h,cell,name,atoms,disp))
                Fo=oracle(h,cell,g,atoms,disp)
                w=max(w,abs(Fc-Fo)/(28.8*g.nsymop))
            worst.append((no,name,adpt,w))
    for w in worst:
        if w[3]>1e-6: print(w)
    print(max(w[3] for w in worst))
