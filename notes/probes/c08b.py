import numpy as np, itertools, math, warnings, sys
warnings.simplefilter('ignore')
from fractions import Fraction as F
from xfab import sg, tools, structure, atomlib
from c05 import cell_for
from multiprocessing import Pool
grid=[F(0),F(1,8),F(1,4),F(1,3),F(1,2),F(2,3),F(3,4)]
def ops_of(g): return [(np.array(r).astype(int),[F(round(x*24),24) for x in t]) for r,t in zip(g.rot,g.trans)]
def img(op,p): R,t=op; return tuple((sum(int(R[i][k])*p[k] for k in range(3))+t[i])%1 for i in range(3))
def ff(typ,s):
    d=atomlib.formfactor[typ]; return sum(d[i]*math.exp(-d[i+4]*s*s) for i in range(4))+d[8]
def run(no):
    g=sg.sg(sgno=no); ops=ops_of(g); cell=cell_for(g.crystal_system,g.cell_choice,0)
    name=None
    for k,v in sg.sgdic.items():
        if v=='Sg%d'%no: name=k;break
    a,b,c=cell[:3]; ca,cb,cg=[math.cos(math.radians(x)) for x in cell[3:]]
    G=np.array([[a*a,a*b*cg,a*c*cb],[a*b*cg,b*b,b*c*ca],[a*c*cb,b*c*ca,c*c]]); Gi=np.linalg.inv(G); astar=np.sqrt(np.diag(Gi))
    # choose up to 3 special positions
    specials=[]
    for p in itertools.product(grid,repeat=3):
        orb=set(img(o,p) for o in ops)
        if len(orb)<g.nsymop and len(orb) not in [s[1] for s in specials]:
            specials.append((p,len(orb)))
        if len(specials)>=3: break
    worst=0
    U0=np.array([[0.010,0.005,-0.004],[0.005,0.020,0.003],[-0.004,0.003,0.015]])
    for p,mult in specials+[((F(1234,10000),F(2345,10000),F(3456,10000)),g.nsymop)]:
        # stabiliser: ops with R p + t == p mod 1 ; symmetrise beta over stabiliser rotations
        beta0=2*math.pi**2*np.outer(astar,astar)*U0
        stab=[o for o in ops if img(o,p)==tuple(x%1 for x in p)]
        beta=sum(o[0]@beta0@o[0].T for o in stab)/len(stab)
        Usym=beta/(2*math.pi**2*np.outer(astar,astar))
        adp=[Usym[0,0],Usym[1,1],Usym[2,2],Usym[1,2],Usym[0,2],Usym[0,1]]
        pf=[float(x) for x in p]
        for adpt,adpv in (('Uiso',0.012),('Uani',adp),(None,None)):
            at=structure.atom_entry(label='x',atomtype='FE',pos=pf,adp_type=adpt,adp=adpv,occ=0.8,symmulti=mult)
            for h in [(0,0,0),(1,0,0),(0,1,1),(1,1,1),(2,1,0),(1,2,3),(-2,1,3),(0,0,2),(3,-1,2)]:
                Fc=complex(*structure.StructureFactor(h,cell,name,[at],{'FE':[0.35,0.85]}))
                hv=np.array(h,float); s=math.sqrt(hv@Gi@hv)/2
                f=ff('FE',s)+0.35+0.85j
                seen={}
                for o in ops:
                    q=img(o,p)
                    if q in seen: continue
                    seen[q]=o
                Fo=0
                for q,o in seen.items():
                    r=o[0]@np.array(pf)+np.array([float(x) for x in o[1]])
                    if adpt=='Uiso': dw=math.exp(-8*math.pi**2*adpv*s*s)
                    elif adpt=='Uani': dw=math.exp(-hv@(o[0]@beta@o[0].T)@hv)
                    else: dw=1
                    Fo+=0.8*f*dw*np.exp(2j*math.pi*hv@r)
                worst=max(worst,abs(Fc-Fo)/(0.8*27*mult))
    return (no,len(specials),worst)
if __name__=='__main__':
    with Pool(16) as p: res=p.map(run,range(1,231),chunksize=2)
    print(max(r[2] for r in res), sum(r[1] for r in res))
    print([r for r in res if r[2]>1e-6][:10])
