import numpy as np, itertools, math, warnings
from xfab import tools, laue
def Rx(a): return np.array([[1,0,0],[0,math.cos(a),-math.sin(a)],[0,math.sin(a),math.cos(a)]])
def Ry(a): return np.array([[math.cos(a),0,math.sin(a)],[0,1,0],[-math.sin(a),0,math.cos(a)]])
def Rz(a): return np.array([[math.cos(a),-math.sin(a),0],[math.sin(a),math.cos(a),0],[0,0,1]])
def dirs(n):
    out=[]
    for v in itertools.product(range(-n,n+1),repeat=3):
        if v==(0,0,0) or math.gcd(*v)!=1: continue
        v=np.array(v,float); out.append(v/np.linalg.norm(v))
    return out
D=dirs(2); print(len(D))
tths=[math.radians(x) for x in (0.5,2,10,30,60,90,120,150)]
tilts=[-0.5,-0.1,0,0.1,0.5]
stats={}
def target(tth,eta): 
    st=math.sin(tth/2)
    return np.array([-st*st,-math.sin(tth)*math.sin(eta)/2,math.sin(tth)*math.cos(eta)/2])
def chk(name,om,eta,g,tth,Rfun,info):
    for o,e in zip(om,eta):
        gt=Rfun(o)@g
        err=np.abs(gt-target(tth,e)).max()/math.sin(tth/2)
        k=name
        if err>stats.get(k,(0,))[0]: stats[k]=(err,info,o,e)
        assert -math.pi<=o<=math.pi,(name,o)
cnt={}
for mod in (tools,laue):
  for tth in tths:
    st=math.sin(tth/2)
    for d in D:
        g=d*st
        for wx in tilts:
            for wy in tilts:
                # expected number of solutions: solve independently: R=Rx(wx)Ry(wy); need (R Rz(w) g)_x = -st^2
                Rm=Rx(wx)@Ry(wy)
                a=Rm[0,0]*g[0]+Rm[0,1]*g[1]; b=-Rm[0,0]*g[1]+Rm[0,1]*g[0]; c=-st*st-Rm[0,2]*g[2]
                disc=a*a+b*b-c*c
                rel=disc/(a*a+b*b+c*c+1e-300)
                om,eta=mod.find_omega_general(g,tth,wx,wy)
                if abs(rel)>1e-6:
                    exp=2 if disc>0 else 0
                    if len(om)!=exp: cnt[('general',len(om),exp)]=cnt.get(('general',len(om),exp),0)+1
                chk(mod.__name__+'general',om,eta,g,tth,lambda o:mod.form_omega_mat_general(o,wx,wy),(tth,d,wx,wy))
                om2,eta2=mod.find_omega_quart(g,tth,wx,wy)
                chk(mod.__name__+'quart',om2,eta2,g,tth,lambda o:mod.quart_to_omega(math.degrees(o),wx,wy),(tth,d,wx,wy))
        for w in tilts:
            om,eta=mod.find_omega_wedge(g,tth,w)
            chk(mod.__name__+'wedge',om,eta,g,tth,lambda o:Ry(-w)@Rz(o),(tth,d,w))
            omg,etag=mod.find_omega_general(g,tth,0,-w)
            if len(om)!=len(omg): cnt[('wedge-vs-general',len(om),len(omg))]=cnt.get(('wedge-vs-general',len(om),len(omg)),0)+1
        om=mod.find_omega(g,tth)
        omg,etag=mod.find_omega_general(g,tth,0,0)
        if len(om)!=len(omg): cnt[('plain-vs-general',len(om),len(omg))]=cnt.get(('plain-vs-general',len(om),len(omg)),0)+1
        chk(mod.__name__+'plain',om,[None]*len(om),g,tth,Rz,(tth,d)) if False else None
        for o in om:
            gt=Rz(o)@g
            err=abs(gt[0]+st*st)/st
            if err>stats.get(mod.__name__+'plain',(0,))[0]: stats[mod.__name__+'plain']=(err,(tth,d),o)
for k,v in stats.items(): print(k,v)
print(cnt)
