import numpy as np, math
from xfab import tools
from c09 import dirs
