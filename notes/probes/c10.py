import numpy as np, itertools, math
from xfab import tools, detector
worst={}
def upd(k,v,info):
    if v>worst.get(k,(-1,))[0]: worst[k]=(v,info)
tths=[0.5,5,20,45,60]; etas=[0,30,90,135,180,225,270,300]
tilts=[-0.3,0,0.3]; dists=[10,135,1000]; pix=[(0.01,0.01),(0.0936,0.0962),(0.5,0.3)]
offs=[(0,0,0),(2,-2,1),(-1.5,0.5,-2)]
wl=0.5
n=0
for tthd,etad in itertools.product(tths,etas):
    tth=math.radians(tthd); eta=math.radians(etad)
    v=np.array([math.cos(tth),-math.sin(tth)*math.sin(eta),math.sin(tth)*math.cos(eta)])
    # g-vector in tools convention: Gt = 2pi/lambda * (v - (1,0,0))
    Gt=2*math.pi/wl*(v-np.array([1,0,0]))
    for tx_,ty_,tz_ in itertools.product(tilts,repeat=3):
        R=tools.detect_tilt(tx_,ty_,tz_)
        for L in dists:
            for py,pz in pix:
                for (ox,oy,oz) in offs:
                    yc,zc=521.5,-31.25
                    d1=detector.det_coor(Gt,math.cos(tth),wl,L,py,pz,yc,zc,R,ox,oy,oz)
                    d2=detector.det_coor2(tth,eta,L,py,pz,yc,zc,R,ox,oy,oz)
                    n+=1
                    scale=L/min(py,pz)
                    upd('d1d2',max(abs(d1[0]-d2[0]),abs(d1[1]-d2[1]))/scale,(tthd,etad,tx_,ty_,tz_,L))
                    lab=np.array(detector.detector_to_lab(d2[0],d2[1],L,py,pz,yc,zc,R))
                    p=np.array([ox,oy,oz])
                    w=lab-p
                    t=w@v
                    perp=np.linalg.norm(w-t*v)
                    upd('onray',perp/L,(tthd,etad,tx_,ty_,tz_,L,py,(ox,oy,oz)))
                    upd('tneg',-t/L,(tthd,etad,tx_,ty_,tz_,L))
print(n)
for k,v in worst.items(): print(k,v)
