import numpy as np, itertools, math
from xfab import detector
valid=[(1,0,0,1),(-1,0,0,1),(1,0,0,-1),(-1,0,0,-1),(0,1,1,0),(0,-1,-1,0),(0,-1,1,0),(0,1,-1,0)]
bad=[]
for o in itertools.product((-1,0,1),repeat=4):
    for fn in ('trans','flip','d2x','x2d'):
        try:
            if fn=='trans': detector.trans_orientation(np.arange(6).reshape(2,3),*o)
            if fn=='flip': detector.image_flipping(np.arange(6).reshape(2,3),*o)
            if fn=='d2x': detector.detyz_to_xy([0,0],*o,3,2)
            if fn=='x2d': detector.xy_to_detyz([0,0],*o,3,2)
            ok=True
        except ValueError: ok=False
        if ok!=(o in valid): bad.append((o,fn,ok))
print('reject',bad)
iss=[]
for o in valid:
    for nx,ny in itertools.product(range(1,9),repeat=2):
        img=np.arange(nx*ny).reshape(nx,ny)   # img[x,y]
        t=detector.trans_orientation(img,*o)
        back=detector.trans_orientation(t,*o,'inverse')
        if back.shape!=img.shape or (back!=img).any(): iss.append((o,nx,ny,'trans inverse'))
        f=detector.image_flipping(img,*o); fb=detector.image_flipping(f,*o,'inverse')
        if fb.shape!=img.shape or (fb!=img).any(): iss.append((o,nx,ny,'flip inverse'))
        for x,y in itertools.product(range(nx),range(ny)):
            dy,dz=detector.xy_to_detyz([x,y],*o,dety_size=ny,detz_size=nx)
            x2,y2=detector.detyz_to_xy([dy,dz],*o,dety_size=ny,detz_size=nx)
            if (x2,y2)!=(x,y): iss.append((o,nx,ny,x,y,'xy roundtrip',x2,y2))
            try:
                if not (dy==int(dy) and dz==int(dz) and 0<=dy<t.shape[0] and 0<=dz<t.shape[1] and t[int(dy),int(dz)]==img[x,y]): iss.append((o,nx,ny,x,y,'pixel map',dy,dz))
            except Exception as e: iss.append((o,nx,ny,x,y,'exc',repr(e)))
print(len(iss)); print(iss[:10])
import collections; print(collections.Counter((i[0],i[-3] if len(i)>6 else i[3]) for i in iss))
