import numpy as np, itertools, math, time, warnings
warnings.simplefilter('ignore')
from xfab import symmetry, tools
def quat_rots(N):
    seen={}
    for q in itertools.product(range(-N,N+1),repeat=4):
        if q==(0,0,0,0): continue
        g=math.gcd(*q); q=tuple(x//g for x in q)
        for x in q:
            if x!=0:
                if x<0: q=tuple(-y for y in q)
                break
        if q in seen: continue
        w,x,y,z=q; nn=w*w+x*x+y*y+z*z
        seen[q]=np.array([[w*w+x*x-y*y-z*z,2*(x*y-w*z),2*(x*z+w*y)],[2*(x*y+w*z),w*w-x*x+y*y-z*z,2*(y*z-w*x)],[2*(x*z-w*y),2*(y*z+w*x),w*w-x*x-y*y+z*z]])/nn
    return seen
R=list(quat_rots(1).values()); print(len(R))
def ang(M):
    # robust angle: atan2(|axis part|, trace part)
    c=(np.trace(M)-1)/2; s=0.5*math.sqrt((M[2,1]-M[1,2])**2+(M[0,2]-M[2,0])**2+(M[1,0]-M[0,1])**2)
    return math.degrees(math.atan2(s,c))
t0=time.time(); worst=0; wmult=0; n=0
for cs in range(1,8):
    rot=symmetry.rotations(cs)
    for U1 in R:
        for U2 in R:
            m=symmetry.Umis(U1,U2,cs); n+=1
            ref=np.array([ang(U1.T@U2@r.T) for r in rot])
            worst=max(worst,np.abs(m[:,1]-ref).max())
            base=np.sort(m[:,1])
            for j in range(len(rot)):
                for a,b in ((U1,U2@rot[j]),(U1@rot[j],U2)):
                    wmult=max(wmult,np.abs(np.sort(symmetry.Umis(a,b,cs)[:,1])-base).max())
            wmult=max(wmult,np.abs(np.sort(symmetry.Umis(U2,U1,cs)[:,1])-base).max())
            Q=R[7]; wmult=max(wmult,np.abs(np.sort(symmetry.Umis(Q@U1,Q@U2,cs)[:,1])-base).max())
    for U in R: assert symmetry.Umis(U,U,cs)[:,1].min()<1e-4
print(n,worst,wmult,time.time()-t0)
