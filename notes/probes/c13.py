import numpy as np, itertools, math
from xfab import tools, laue
from c02 import quat_rots
