import numpy as np, itertools, math, warnings
warnings.simplefilter('ignore')
from xfab import tools, laue, sg
TP=2*math.pi
cells=[[3,4,5,80,95,100],[0.5,7,20,60,105,135],[5,5,5,60,60,60],[4,4,9,90,90,120],[1,1,1,90,90,90]]
Us=[tools.euler_to_u(*e) for e in [(0,0,0),(0.3,0.4,0.5),(2,3,4),(6,1e-7,.1)]]
worst={}
def cmp(name,a,b,scale=1.0,info=None):
    a=np.asarray(a,float);b=np.asarray(b,float)
    if a.shape!=b.shape: worst[name]=('shape',info); return
    if a.size==0: return
    e=np.abs(a-b*scale).max()/(1e-300+max(np.abs(a).max(),1))
    if e>worst.get(name,(0,))[0]: worst[name]=(e,info)
for c in cells:
    for f in ('form_a_mat','form_a_mat_inv','cell_volume','cell_invert','reduce_cell'):
        cmp(f,getattr(tools,f)(c),getattr(laue,f)(c),1,c)
    cmp('form_b_mat',tools.form_b_mat(c),laue.form_b_mat(c),TP,c)
    A=tools.form_a_mat(c);Bl=laue.form_b_mat(c)
    cmp('a_to_cell',tools.a_to_cell(A),laue.a_to_cell(A)); cmp('b_to_cell',tools.b_to_cell(Bl*TP),laue.b_to_cell(Bl))
    for h in [(1,0,0),(1,2,-3),(0,0,2)]:
        cmp('sintl',tools.sintl(c,h),laue.sintl(c,h)); cmp('tth',tools.tth(c,h,0.1),laue.tth(c,h,0.1))
        for U in Us:
            g=U@Bl@np.array(h,float)
            cmp('tth2',tools.tth2(g*TP,0.1),laue.tth2(g,0.1))
    for U in Us:
        ubi=laue.u_to_ubi(U,c)
        cmp('u_to_ubi',tools.u_to_ubi(U,c),ubi)
        cmp('ubi_to_u',tools.ubi_to_u(ubi),laue.ubi_to_u(ubi)); cmp('ubi_to_cell',tools.ubi_to_cell(ubi),laue.ubi_to_cell(ubi))
        cmp('ubi_to_rod',tools.ubi_to_rod(ubi),laue.ubi_to_rod(ubi))
        a=tools.ubi_to_u_b(ubi);b=laue.ubi_to_u_b(ubi); cmp('ubi_to_u_b.U',a[0],b[0]); cmp('ubi_to_u_b.B',a[1],b[1],TP)
        a=tools.ub_to_u_b(U@Bl*TP);b=laue.ub_to_u_b(U@Bl); cmp('ub_to_u_b.U',a[0],b[0]); cmp('ub_to_u_b.B',a[1],b[1],TP)
        a=tools.ubi_to_u_and_eps(ubi,c);b=laue.ubi_to_u_and_eps(ubi,c); cmp('ubi_to_u_and_eps.U',a[0],b[0]); cmp('ubi_to_u_and_eps.eps',a[1],b[1])
    for eps in [(0,)*6,(0.1,-0.1,0.05,0,0.02,-0.03)]:
        for f in ('epsilon_to_b','epsilon_to_b_old'):
            cmp(f,getattr(tools,f)(eps,c),getattr(laue,f)(eps,c),TP)
        B=laue.epsilon_to_b(eps,c)
        for f in ('b_to_epsilon','b_to_epsilon_old'): cmp(f,getattr(tools,f)(B*TP,c),getattr(laue,f)(B,c))
for U in Us:
    cmp('u_to_euler',tools.u_to_euler(U),laue.u_to_euler(U)); cmp('u_to_rod',tools.u_to_rod(U),laue.u_to_rod(U))
for e in itertools.product([0,.5,3,6],repeat=3):
    cmp('euler_to_u',tools.euler_to_u(*e),laue.euler_to_u(*e)); cmp('fomg',tools.form_omega_mat_general(*e),laue.form_omega_mat_general(*e))
    cmp('quart',tools.quart_to_omega(*e),laue.quart_to_omega(*e)); cmp('tilt',tools.detect_tilt(*e),laue.detect_tilt(*e)); cmp('rod_to_u',tools.rod_to_u(e),laue.rod_to_u(e))
    cmp('fom',tools.form_omega_mat(e[0]),laue.form_omega_mat(e[0]))
for y,x in itertools.product([-1,-1e-9,0,1e-9,1,5e-9,-2e-8],repeat=2):
    try: a=tools._arctan2(y,x)
    except ValueError: a=None
    try: b=laue._arctan2(y,x)
    except ValueError: b=None
    if (a is None)!=(b is None) or (a is not None and a!=b): worst['_arctan2']=(1,(y,x))
for tthd in (2,30,120):
    tth=math.radians(tthd); st=math.sin(tth/2)
    for v in itertools.product((-1,0,1,2),repeat=3):
        if v==(0,0,0): continue
        g=np.array(v,float); g=g/np.linalg.norm(g)*st
        cmp('find_omega',tools.find_omega(g,tth),laue.find_omega(g,tth))
        for wx,wy in ((0,0),(.1,-.3)):
            for f in ('find_omega_general','find_omega_quart'):
                a=getattr(tools,f)(g,tth,wx,wy);b=getattr(laue,f)(g,tth,wx,wy)
                cmp(f+'.om',a[0],b[0],1,(tthd,v,wx,wy)); cmp(f+'.eta',a[1],b[1],1,(tthd,v,wx,wy))
        a=tools.find_omega_wedge(g,tth,.2);b=laue.find_omega_wedge(g,tth,.2); cmp('wedge.om',a[0],b[0]);cmp('wedge.eta',a[1],b[1])
for no in (1,14,62,141,148,167,194,225,230):
    G=sg.sg(sgno=no)
    from c05 import cell_for
    c=cell_for(G.crystal_system,G.cell_choice,0)
    for f in ('genhkl_unique','genhkl_all'):
        np.random.seed(0); a=getattr(tools,f)(c,0.05,0.4,sgno=no,output_stl=True); np.random.seed(5); b=getattr(laue,f)(c,0.05,0.4,sgno=no,output_stl=True)
        a=a[np.lexsort(a.T[::-1])];b=b[np.lexsort(b.T[::-1])]
        cmp(f,a,b,1,no)
    a=tools.genhkl_base(c,G.syscond,0.05,0.4,G.crystal_system,G.Laue,G.cell_choice,True);b=laue.genhkl_base(c,G.syscond,0.05,0.4,G.crystal_system,G.Laue,G.cell_choice,True); cmp('genhkl_base',a,b)
    a=tools.genhkl(c,G.syscond,0.05,0.3,G.crystal_system,True);b=laue.genhkl(c,G.syscond,0.05,0.3,G.crystal_system,True); cmp('genhkl',a,b)
    for h in itertools.product(range(-3,4),repeat=3):
        if tools.sysabs(h,G.syscond,G.crystal_system,G.cell_choice)!=laue.sysabs(h,G.syscond,G.crystal_system,G.cell_choice): worst['sysabs']=(1,(no,h))
        if tools.sysabs_unique(h,G.syscond)!=laue.sysabs_unique(h,G.syscond): worst['sysabs_unique']=(1,(no,h))
for k,v in sorted(worst.items(),key=lambda kv:-kv[1][0] if not isinstance(kv[1][0],str) else -9): print(k,v)
