import numpy as np, itertools, math, warnings, sys
warnings.simplefilter('ignore')
from fractions import Fraction as F
from xfab import sg, structure
from multiprocessing import Pool
settings=[(i,'standard') for i in range(1,231)]+[(i,'rhombohedral') for i in (146,148,155,160,161,166,167)]
grid=[F(0),F(1,8),F(1,6),F(1,4),F(1,3),F(3,8),F(1,2),F(5,8),F(2,3),F(3,4),F(5,6),F(7,8)]
def orbit_size(ops,p):
    S=set()
    for R,t in ops:
        q=tuple((sum(R[i][k]*p[k] for k in range(3))+t[i])%1 for i in range(3))
        S.add(q)
    return len(S)
def run(a):
    no,cc=a
    g=sg.sg(sgno=no,cell_choice=cc)
    ops=[([[int(x) for x in row] for row in r],[F(round(x*12),12) for x in t]) for r,t in zip(g.rot,g.trans)]
    bad=[]
    for p in itertools.product(grid,repeat=3):
        ref=orbit_size(ops,p)
        got=structure.multiplicity(np.array([float(x) for x in p]),sgno=no,cell_choice=cc)
        if got!=ref: bad.append((tuple(str(x) for x in p),ref,got))
    return (no,cc,g.name,len(bad),bad[:3])
if __name__=='__main__':
    with Pool(16) as p: res=p.map(run,settings,chunksize=1)
    nb=0
    for r in res:
        if r[3]: print(r); nb+=1
    print(nb)
