import numpy as np, time, warnings, math, logging
warnings.simplefilter('ignore')
from xfab import structure
logging.getLogger('xfab.structure').disabled=True
cif="""data_global
_audit_creation_method 'x'

data_test1
_symmetry_space_group_name_H-M     'P 21/c'
_cell_length_a     8.5312(15)
_cell_length_b     4.8321(8)
_cell_length_c     10.125(2)
_cell_angle_alpha     90.00
_cell_angle_beta     92.031(16)
_cell_angle_gamma     90.00
loop_
    _atom_type_symbol
    _atom_type_scat_dispersion_real
    _atom_type_scat_dispersion_imag
    'C' 0.0033 0.0016
    'Fe' 0.3463(2) 0.8444
loop_
    _atom_site_label
    _atom_site_type_symbol
    _atom_site_fract_x
    _atom_site_fract_y
    _atom_site_fract_z
    _atom_site_U_iso_or_equiv
    _atom_site_adp_type
    _atom_site_occupancy
    _atom_site_symmetry_multiplicity
    C1 C 0.10603(16) -0.2035(3) 0.5 0.0171(3) Uani 1 4
    Fe2 Fe 0.25 0.75 -0.125(4) 0.0271(3) Uiso 0.5(1) 2
loop_
    _atom_site_aniso_label
    _atom_site_aniso_U_11
    _atom_site_aniso_U_22
    _atom_site_aniso_U_33
    _atom_site_aniso_U_23
    _atom_site_aniso_U_13
    _atom_site_aniso_U_12
    C1 0.0137(6) 0.0188(7) 0.0186(6) 0.0017(5) -0.0026(5) 0.0007(5)
"""
open('t.cif','w').write(cif)
t0=time.time()
for i in range(5):
    b=structure.build_atomlist(); b.CIFread('t.cif')
print((time.time()-t0)/5)
al=b.atomlist
print(al.cell,al.sgname,al.dispersion)
for a in al.atom: print(vars(a))
