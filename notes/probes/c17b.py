import numpy as np, itertools, math, warnings, logging, os, sys, time
warnings.simplefilter('ignore')
from xfab import structure, sg
logging.getLogger('xfab.structure').disabled=True
from multiprocessing import Pool
P8=8*math.pi**2
def esd(x,on,nd=4):
    s=("%."+str(nd)+"f")%x
    return s+"(3)" if on else s
def gen(cfg,sym='P 21/c',cell=(8.5312,4.8321,10.125,90.0,92.031,90.0)):
    adp,es,occ_on,mkey,tloop,glob=cfg
    atoms=[('C1','C',(0.10603,-0.2035,0.5),0.0171,(0.0137,0.0188,0.0186,0.0017,-0.0026,0.0007),1.0,4),
           ('Fe2','Fe',(0.25,0.75,-0.125),0.0271,(0.021,0.022,0.023,0.001,0.002,-0.003),0.5,2),
           ('O3','O',(0.5,0.5,0.0),0.0333,(0.031,0.032,0.033,-0.001,0.0,0.003),0.75,2)]
    L=[]
    if glob: L+=["data_global","_audit_creation_method 'x'",""]
    L+=["data_blk","_symmetry_space_group_name_H-M   '%s'"%sym]
    for k,v in zip(('length_a','length_b','length_c','angle_alpha','angle_beta','angle_gamma'),cell):
        L.append("_cell_%s  %s"%(k,esd(v,es and k.startswith('length'))))
    if tloop!='absent':
        L+=["loop_","_atom_type_symbol"]+(["_atom_type_scat_dispersion_real","_atom_type_scat_dispersion_imag"] if tloop=='disp' else ["_atom_type_description"])
        for el,(fp,fpp) in (('C',(0.0033,0.0016)),('Fe',(0.3463,0.8444)),('O',(0.0106,0.006))):
            L.append("'%s' %s %s"%(el,esd(fp,es),'%.4f'%fpp) if tloop=='disp' else "'%s' '%s'"%(el,el))
    L+=["loop_","_atom_site_label","_atom_site_type_symbol","_atom_site_fract_x","_atom_site_fract_y","_atom_site_fract_z"]
    kinds={'Uiso':['Uiso']*3,'Uani':['Uani']*3,'Biso':['Biso']*3,'Bani':['Bani']*3,'absent':[None]*3,'mixed':['Uani','Uiso','Biso']}[adp]
    if adp!='absent':
        if any(k in('Uiso','Uani') for k in kinds): L.append("_atom_site_U_iso_or_equiv")
        if any(k in('Biso','Bani') for k in kinds): L.append("_atom_site_B_iso_or_equiv")
        L.append("_atom_site_adp_type")
    if occ_on: L.append("_atom_site_occupancy")
    if mkey: L.append(mkey)
    exp=[]
    for (lab,el,pos,uiso,uani,occ,mult),k in zip(atoms,kinds):
        row=[lab,el]+[esd(x,es,5) for x in pos]
        if adp!='absent':
            if any(kk in('Uiso','Uani') for kk in kinds): row.append(esd(uiso,es))
            if any(kk in('Biso','Bani') for kk in kinds): row.append(esd(uiso*P8,es))
            row.append(k)
        if occ_on: row.append(esd(occ,es,2))
        if mkey: row.append(str(mult))
        L.append(" ".join(row))
        e=dict(label=lab,atomtype=el.upper(),pos=list(pos),occ=occ if occ_on else 1.0,symmulti=mult if mkey else None)
        if k is None: e.update(adp_type=None,adp=0.0)
        elif k in('Uiso',): e.update(adp_type='Uiso',adp=uiso)
        elif k=='Biso': e.update(adp_type='Uiso',adp=float("%.4f"%(uiso*P8))/P8)
        elif k=='Uani': e.update(adp_type='Uani',adp=list(uani))
        elif k=='Bani': e.update(adp_type='Uani',adp=[float("%.4f"%(u*P8))/P8 for u in uani])
        exp.append(e)
    for pre,ks in (('U',[a for a,k in zip(atoms,kinds) if k=='Uani']),('B',[a for a,k in zip(atoms,kinds) if k=='Bani'])):
        if ks:
            L+=["loop_","_atom_site_aniso_label"]+["_atom_site_aniso_%s_%s"%(pre,ij) for ij in ('11','22','33','23','13','12')]
            for a in ks: L.append(a[0]+" "+" ".join(esd(u*(P8 if pre=='B' else 1),es) for u in a[4]))
    disp={'C':[0.0033,0.0016],'FE':[0.3463,0.8444],'O':[0.0106,0.006]} if tloop=='disp' else {'C':None,'FE':None,'O':None}
    return "\n".join(L)+"\n",exp,disp
def run(a):
    i,cfg=a
    txt,exp,disp=gen(cfg)
    fn='/dev/shm/c17_%d.cif'%i; open(fn,'w').write(txt)
    try:
        b=structure.build_atomlist(); b.CIFread(fn)
        al=b.atomlist; probs=[]
        if al.cell!=[8.5312,4.8321,10.125,90.0,92.031,90.0]: probs.append(('cell',al.cell))
        if al.sgname!='P21/c': probs.append(('sg',al.sgname))
        if al.dispersion!=disp: probs.append(('disp',al.dispersion))
        for at,e in zip(al.atom,exp):
            for k,v in e.items():
                w=getattr(at,k)
                if k=='symmulti' and v is None: v=structure.multiplicity(e['pos'],'P21/c')
                ok = (np.allclose(w,v,rtol=1e-12,atol=1e-15) if isinstance(v,(list,float)) and w is not None else w==v)
                if not ok: probs.append((at.label,k,w,v))
        return (cfg,probs)
    except Exception as ex:
        return (cfg,[('exc',repr(ex))])
    finally: os.remove(fn)
if __name__=='__main__':
    cfgs=list(itertools.product(['Uiso','Uani','Biso','Bani','absent','mixed'],[False,True],[True,False],[None,'_atom_site_symmetry_multiplicity','_atom_site_symetry_multiplicity'],['disp','nodisp','absent'],[False,True]))
    t0=time.time()
    with Pool(16) as p: res=p.map(run,list(enumerate(cfgs)),chunksize=4)
    print(len(cfgs),time.time()-t0)
    bad=[r for r in res if r[1]]
    print(len(bad))
    import collections
    print(collections.Counter(str(r[1][0][:2]) for r in bad).most_common(10))
    for r in bad[:6]: print(r)
