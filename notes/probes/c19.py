import itertools, collections, os, time, struct, sys
from xfab import parameters as P
import logging; logging.getLogger('xfab.parameters').disabled=True
NAMES=['a','b_c']; VALS=[1,2.5,'x',7]
class Other:
    def __init__(self,**kw): self.__dict__.update(kw)
def ops():
    o=[]
    for n in NAMES:
        for v in VALS[:3]:
            for vary,can in ((False,False),(False,True),(True,True)):
                o.append(('addpar',n,v,vary,can))
            o.append(('set',n,v)); o.append(('set_parameters',((n,v),)))
    o.append(('set_parameters',()))
    for k in range(0,3):
        for vl in itertools.permutations(NAMES,k): o.append(('set_varylist',vl))
    for vals in ((),(7,),(7,2.5)): o.append(('set_variable_values',vals))
    o.append(('update_yourself',(('a',7),))); o.append(('update_other',('a',)))
    o.append(('saveload',)); o.append(('loadsame',))
    return o
OPS=ops()
def tag(v): return (type(v).__name__, struct.pack('d',v) if isinstance(v,float) else v)
# reference model
class Model:
    def __init__(s): s.p={}; s.vary=[]; s.varl=[]; s.other={}
    def coerce(s):
        for k,v in list(s.p.items()):
            if isinstance(v,str):
                try: s.p[k]=int(v)
                except ValueError:
                    try: s.p[k]=float(v)
                    except ValueError: s.p[k]=v.strip()
    def step(s,op):
        k=op[0]
        if k=='addpar':
            _,n,v,vary,can=op; s.p[n]=v
            if vary and n not in s.vary: s.vary.append(n)
            if can and n not in s.varl: s.varl.append(n)
        elif k=='set': s.p[op[1]]=op[2]
        elif k=='set_parameters': s.p.update(dict(op[1])); s.coerce()
        elif k=='set_varylist':
            if all(v in s.p and v in s.varl for v in op[1]): s.vary=list(op[1])
            else: return 'AssertionError'
        elif k=='set_variable_values':
            if len(op[1])!=len(s.vary): return 'AssertionError'
            for n,v in zip(s.vary,op[1]): s.p[n]=v
        elif k=='update_yourself':
            for n,v in op[1]:
                if n in s.p: s.p[n]=v
        elif k=='update_other':
            s.other={n:s.p[n] for n in op[1] if n in s.p}
        elif k=='saveload':
            s.p={kk.replace('-','_'):vv for kk,vv in s.p.items()}; s.coerce(); s.vary=[]; s.varl=[]
        elif k=='loadsame': s.coerce()
        return None
    def canon(s): return (tuple(sorted((k,tag(v)) for k,v in s.p.items())),tuple(s.vary),tuple(s.varl),tuple(sorted(s.other.items())))
def apply(obj,st,op):
    k=op[0]
    try:
        if k=='addpar': obj.addpar(P.par(op[1],op[2],vary=op[3],can_vary=op[4],stepsize=0.1))
        elif k=='set': obj.set(op[1],op[2])
        elif k=='set_parameters': obj.set_parameters(dict(op[1]))
        elif k=='set_varylist': obj.set_varylist(list(op[1]))
        elif k=='set_variable_values': obj.set_variable_values(list(op[1]))
        elif k=='update_yourself': obj.update_yourself(Other(**dict(op[1])))
        elif k=='update_other':
            o=Other(**{n:None for n in op[1]}); obj.update_other(o); st['other']={n:getattr(o,n) for n in op[1] if n in obj.parameters}
        elif k=='saveload':
            fn='/dev/shm/c19_%d.par'%os.getpid(); obj.saveparameters(fn); new=P.read_par_file(fn); return new,None
        elif k=='loadsame':
            fn='/dev/shm/c19_%d.par'%os.getpid(); obj.saveparameters(fn); obj.loadparameters(fn)
    except AssertionError: return obj,'AssertionError'
    return obj,None
def build(hist):
    obj=P.parameters(); st={'other':{}}; m=Model()
    for op in hist:
        obj,e=apply(obj,st,op); e2=m.step(op)
        assert e==e2,(hist,op,e,e2)
    return obj,st,m
def canon_impl(obj,st): return (tuple(sorted((k,tag(v)) for k,v in obj.parameters.items())),tuple(obj.varylist),tuple(obj.variable_list),tuple(sorted(st['other'].items())))
t0=time.time()
seen={Model().canon():[]}; fr=collections.deque([[]]); trans=0;maxd=0
while fr:
    h=fr.popleft(); maxd=max(maxd,len(h))
    for op in OPS:
        obj,st,m=build(h+[op]); trans+=1
        ci=canon_impl(obj,st); cm=m.canon()
        assert ci==cm,(h,op,ci,cm)
        assert obj.get_variable_values()==[m.p[n] for n in m.vary]
        if cm not in seen: seen[cm]=h+[op]; fr.append(h+[op])
print(len(OPS),len(seen),trans,maxd,time.time()-t0)
