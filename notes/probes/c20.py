import numpy as np, itertools, math, traceback, sys, warnings
warnings.simplefilter('ignore')
import xfab
from xfab import tools, laue, symmetry
def from_checks(ex):
    tb=traceback.extract_tb(ex.__traceback__)
    xf=[f for f in tb if '/xfab/' in f.filename]
    return bool(xf) and xf[-1].filename.endswith('checks.py')
cell=[3,4,5,80,95,100]
U0=tools.euler_to_u(0.3,0.7,1.9)
refl=U0@np.diag([1,1,-1.0])
def pert(U,d): V=U.copy(); V[0,1]+=d; return V
classes={'valid':U0,'f32':U0.astype(np.float32),'p5e-8':pert(U0,5e-8),'p1e-3':pert(U0,1e-3),'p0.3':pert(U0,0.3),'reflect':refl}
def calls(mod):
    f=2*math.pi if mod is tools else 1.0
    B=mod.form_b_mat(cell)
    d={}
    for k,U in classes.items():
        U=np.asarray(U)
        d[('u_to_euler',k)]=lambda U=U: mod.u_to_euler(U)
        d[('u_to_rod',k)]=lambda U=U: mod.u_to_rod(U)
        d[('u_to_ubi',k)]=lambda U=U: mod.u_to_ubi(U,cell)
        ubi=np.linalg.inv(np.asarray(U,float)@B)*f
        d[('ubi_to_u',k)]=lambda ubi=ubi: mod.ubi_to_u(ubi)
        d[('ubi_to_u_and_eps',k)]=lambda ubi=ubi: mod.ubi_to_u_and_eps(ubi,cell)
        d[('ub_to_u_b',k)]=lambda U=U: mod.ub_to_u_b(np.asarray(U,float)@B)
        if mod is tools: d[('Umis',k)]=lambda U=U: symmetry.Umis(U0,U,7)
    for k,e in {'ok':(0.1,0.2,0.3),'edge':(0,2*math.pi,math.pi),'neg':(-1e-3,1,1),'big':(1,2*math.pi+1e-3,1),'big3':(1,1,7)}.items():
        d[('euler_to_u',k)]=lambda e=e: mod.euler_to_u(*e)
    return d
for mod in (tools,laue):
    print('==',mod.__name__)
    rows={}
    for state in (True,False):
        xfab.CHECKS.activated=state
        for key,fn in calls(mod).items():
            try: r=fn(); out='ok'
            except ValueError as ex: out='CHK' if from_checks(ex) else 'VE:'+str(ex)[:30]
            except Exception as ex: out=type(ex).__name__
            rows.setdefault(key,[]).append(out)
    xfab.CHECKS.activated=True
    fns=sorted(set(k[0] for k in rows))
    for f in fns:
        print(f,{k[1]:tuple(v) for k,v in rows.items() if k[0]==f})
