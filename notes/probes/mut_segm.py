import re, sys, types, math, itertools, warnings, time
warnings.simplefilter('ignore')
import numpy as np
sys.path.insert(0,'/tmp/xs/rf')
from xfab import sg
from c05 import oracle, cell_for
from multiprocessing import Pool
SRC=open('/tmp/xs/rf/xfab/tools.py').read()
lines=SRC.split('\n')
# locate genhkl_base segm region
start=next(i for i,l in enumerate(lines) if l.startswith('def genhkl_base'))
end=next(i for i,l in enumerate(lines) if i>start and 'if segm is None' in l)
# map each line to the Laue condition active
muts=[]
cur=None
for i in range(start,end):
    l=lines[i]
    m=re.match(r"\s*if Laue_class == '([^']+)'( and cell_choice(!=|==)'rhombohedral')?",l)
    if m: cur=(m.group(1), m.group(3))
    if l.lstrip().startswith('#'): continue
    if 'segm = n.array' in l or (cur and re.match(r"\s*\[\[",l)):
        for t in re.finditer(r"(?<![\w.])-?\d+(?![\w.])",l[l.index('['):] if '[' in l else ''):
            off=l.index('[')
            val=int(t.group(0))
            for new in ({0:[1,-1],1:[0,-1],-1:[0,1],2:[1],-2:[-1]}.get(val,[])):
                muts.append((i,off+t.start(),off+t.end(),val,new,cur))
print(len(muts))
REP={('-1',None):(1,'standard'),('2/m',None):(3,'standard'),('mmm',None):(16,'standard'),('4/mmm',None):(89,'standard'),('4/m',None):(75,'standard'),
     ('6/mmm',None):(177,'standard'),('6/m',None):(168,'standard'),('-3m1',None):(150,'standard'),('-31m',None):(149,'standard'),('-3','!='):(143,'standard'),
     ('-3m','=='):(155,'rhombohedral'),('-3','=='):(146,'rhombohedral'),('m-3m',None):(207,'standard'),('m-3',None):(195,'standard')}
def load(src):
    mod=types.ModuleType('xfab.tools_mut'); mod.__file__='mut'
    exec(compile(src,'mut','exec'),mod.__dict__); return mod
def run(mu):
    i,a,b,val,new,cur=mu
    L=list(lines); L[i]=L[i][:a]+str(new)+L[i][b:]
    try: mod=load('\n'.join(L))
    except Exception as ex: return (mu,'compile')
    no,cc=REP[cur]
    g=sg.sg(sgno=no,cell_choice=cc)
    killed=None
    for variant in (0,1):
        cell=cell_for(g.crystal_system,g.cell_choice,variant)
        if g.crystal_system=='triclinic' and variant==0: cell=[5.1,6.3,7.7,82.,97.,104.]
        for smin,smax in ((0.0,0.42),(0.15,0.5)):
            N=int(max(2*smax*x for x in cell[:3]))+1
            ref=oracle(g,cell,smin,smax,N)
            try:
                import signal
                H=mod.genhkl_all(cell,smin,smax,sgno=no,cell_choice=cc)
                U=mod.genhkl_unique(cell,smin,smax,sgno=no,cell_choice=cc)
            except Exception as ex: return (mu,'exc:'+type(ex).__name__)
            got=[tuple(int(round(x)) for x in r[:3]) for r in H]
            if len(got)!=len(set(got)) or set(got)!=ref: return (mu,'all')
            pg=[np.array(r).astype(int) for r in g.rot[:g.nuniq]]; pg=pg+[-r for r in pg]
            fam=lambda h: frozenset(tuple(int(x) for x in np.array(h)@R) for R in pg)
            uf=[fam(tuple(int(round(x)) for x in r[:3])) for r in U]
            if len(set(uf))!=len(uf): return (mu,'uniq-dup')
    return (mu,None)
if __name__=='__main__':
    t0=time.time()
    with Pool(16) as p: res=p.map(run,muts,chunksize=2)
    print(time.time()-t0)
    import collections
    print(collections.Counter(r[1] for r in res))
    for r in res:
        if r[1] is None: print('SURVIVED',r[0], lines[r[0][0]].strip())
