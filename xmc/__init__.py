"""xmc - a small explicit-state / bounded-exhaustive explorer for the xfab properties."""
