"""Shared finite alphabets.  Everything here is deterministic and ordered simplest-first."""
from __future__ import annotations

import itertools
import math

import numpy as np

RHOMB = (146, 148, 155, 160, 161, 166, 167)
SETTINGS = [(i, "standard") for i in range(1, 231)] + [(i, "rhombohedral") for i in RHOMB]


def gram(al, be, ga):
    ca, cb, cg = (math.cos(math.radians(x)) for x in (al, be, ga))
    return 1 - ca * ca - cb * cb - cg * cg + 2 * ca * cb * cg


def cells(tier, lens=None, angs=None, extra_angs=()):
    """The cell alphabet of DESIGN §3: lengths x angle triples with Gram determinant >= 0.02."""
    if lens is None:
        lens = [(1, 1, 1), (3, 4, 5), (0.5, 7, 20), (10, 2.5, 2.5)]
        if tier == "thorough":
            lens += [(7.3, 7.3, 11.9), (40, 40, 40)]
    if angs is None:
        angs = [90, 60, 120, 75, 105, 45, 135] if tier == "quick" else [90, 60, 120, 80, 100, 70, 110, 50, 130, 40, 140, 30, 150]
    trip = [t for t in itertools.product(angs, repeat=3) if gram(*t) >= 0.02]
    if tier == "thorough":
        trip += [t for t in itertools.product((89.9, 90.1), repeat=3)]
        trip += [t for t in itertools.permutations((89.9, 120.0, 60.1))]
    # angles within 1e-3 .. 1e-7 degrees of a right angle (thresholds that snap "almost 90" to 90 live here)
    trip += [(90.0, 90.0004, 90.0), (89.9996, 90.0, 90.0), (90.0, 90.0, 90.00005), (90.0004, 89.9996, 90.0004), (90.000001, 90.0, 89.999999),
             (120.0, 90.0004, 89.9996), (60.0, 60.0, 90.00001)]
    # very obtuse / very acute angles (still Gram >= 0.02): branches that treat |cos| near 1 specially live here
    trip += [t for t in [(165.0, 90.0, 90.0), (90.0, 165.0, 90.0), (90.0, 90.0, 165.0), (15.0, 90.0, 90.0), (90.0, 15.0, 90.0), (90.0, 90.0, 15.0),
                         (95.0, 92.0, 163.0), (162.0, 85.0, 97.0), (17.0, 80.0, 85.0), (170.0, 90.0, 90.0), (90.0, 10.0, 90.0)] if gram(*t) >= 0.02]
    trip += list(extra_angs)
    out = []
    for l in lens:
        for t in trip:
            out.append([float(l[0]), float(l[1]), float(l[2]), float(t[0]), float(t[1]), float(t[2])])
    # cells that occur as literals in the library's own source (a shortcut or a cache is most likely to key on them), and a ladder of
    # overall scale: protein/virus-size cells and absurdly small ones are still "a, b, c > 0"
    for c in SPECIAL_CELLS:
        if c not in out:
            out.append(list(c))
    return out


SPECIAL_CELLS = [[1.0, 1.0, 1.0, 90.0, 90.0, 120.0], [1.0, 1.0, 1.0, 90.0, 90.0, 90.0], [480.0, 480.0, 480.0, 90.0, 90.0, 90.0], [350.0, 600.0, 520.0, 90.0, 105.0, 90.0],
                 [0.05, 0.07, 0.02, 80.0, 95.0, 100.0], [3.0, 3.5, 400.0, 90.0, 90.0, 90.0], [5.0, 6.0, 7.0, 80.0, 95.0, 100.0],
                 # no round numbers at all (a grid of round values is blind to an input rounded to a few decimals), and a cell beyond 1000 A
                 [3.1415926535, 4.6692016091, 5.4365636569, 81.2345678912, 94.8765432198, 102.3456789123],
                 [1012.7, 1187.4, 1365.9, 90.0, 90.0, 90.0]]


def dirty_call(fn, args_before, args_now, pos=0):
    """History probe: the argument at position `pos` is a buffer the caller reuses.  For each buffer kind (list, float64 array)
    fill the buffer with args_before[pos], call fn, overwrite the buffer IN PLACE with args_now[pos], call fn again and yield
    (kind, result of the second call).  The oracle judges it for args_now.  A memo keyed on object identity returns stale data."""
    for kind in ("list", "ndarray"):
        if kind == "list":
            buf = [float(x) for x in np.asarray(args_before[pos], float).reshape(-1)] if np.ndim(args_before[pos]) == 1 else np.asarray(args_before[pos], float).tolist()
        else:
            buf = np.array(args_before[pos], float)
        a = list(args_before)
        a[pos] = buf
        try:
            fn(*a)
        except Exception:
            pass
        new = np.asarray(args_now[pos], float)
        if kind == "list":
            if new.ndim == 1:
                buf[:] = [float(x) for x in new]
            else:
                for i, row in enumerate(new.tolist()):
                    buf[i][:] = row
        else:
            buf[...] = new
        b = list(args_now)
        b[pos] = buf
        yield kind, fn(*b)


def coarse_cells(tier):
    angs = [90, 60, 105, 135, 45] if tier == "quick" else [90, 60, 120, 75, 105, 45, 135]
    lens = [(3, 4, 5), (0.5, 7, 20)] if tier == "quick" else [(3, 4, 5), (0.5, 7, 20), (1, 1, 1)]
    return cells("quick", lens=lens, angs=angs)


def conforming_cells(crystal_system, cell_choice, tier="quick"):
    """Short fixed list of cells conforming to the crystal system / setting (DESIGN §3)."""
    a, b, c = 5.1, 6.3, 7.7
    if crystal_system == "triclinic":
        l = [[a, b, c, 82., 97., 104.], [a, b, c, 90., 90., 90.], [a, b, c, 60., 75., 110.]]
        if tier == "thorough":
            l += [[4.0, 9.0, 5.5, 100., 115., 95.], [a, b, c, 120., 60., 75.]]
        return l + [[a, b, c, 90.0004, 89.9996, 90.0004]]  # almost orthogonal: a shortcut "angles are 90" must not take it
    if crystal_system == "monoclinic":
        l = [[a, b, c, 90., 104., 90.], [a, b, c, 90., 90., 90.], [a, b, c, 90., 120., 90.]]
        if tier == "thorough":
            l += [[a, b, c, 90., 135., 90.], [c, a, b, 90., 75., 90.]]
        return l + [[a, b, c, 90., 90.0004, 90.]]
    if crystal_system == "orthorhombic":
        l = [[a, b, c, 90., 90., 90.]]
        if tier == "thorough":
            l += [[c, a, b, 90., 90., 90.]]
        return l
    if crystal_system == "tetragonal":
        l = [[a, a, c, 90., 90., 90.]]
        if tier == "thorough":
            l += [[c, c, a, 90., 90., 90.]]
        return l
    if crystal_system in ("trigonal", "hexagonal"):
        if cell_choice == "rhombohedral":
            l = [[a, a, a, 75., 75., 75.], [a, a, a, 100., 100., 100.]]
            if tier == "thorough":
                l += [[a, a, a, al, al, al] for al in (50., 60., 90., 110.)]
            return l
        l = [[a, a, c, 90., 90., 120.]]
        if tier == "thorough":
            l += [[c, c, a, 90., 90., 120.]]
        return l
    if crystal_system == "cubic":
        return [[a, a, a, 90., 90., 90.]]
    raise ValueError(crystal_system)


def quat_rots(N):
    """All rotations of the integer-quaternion lattice with |component| <= N (rational matrices).
    Returns list of (q, R) ordered by |q|^2 then lexicographically."""
    seen = {}
    for q in itertools.product(range(-N, N + 1), repeat=4):
        if q == (0, 0, 0, 0):
            continue
        g = math.gcd(*q)
        q = tuple(x // g for x in q)
        for x in q:
            if x != 0:
                if x < 0:
                    q = tuple(-y for y in q)
                break
        if q in seen:
            continue
        seen[q] = quat_to_mat(q)
    keys = sorted(seen, key=lambda q: (sum(x * x for x in q), tuple(abs(x) for x in q), q))
    return [(q, seen[q]) for q in keys]


def quat_to_mat(q):
    w, x, y, z = q
    nn = float(w * w + x * x + y * y + z * z)
    return np.array([[w * w + x * x - y * y - z * z, 2 * (x * y - w * z), 2 * (x * z + w * y)],
                     [2 * (x * y + w * z), w * w - x * x + y * y - z * z, 2 * (y * z - w * x)],
                     [2 * (x * z - w * y), 2 * (y * z + w * x), w * w - x * x - y * y + z * z]], float) / nn


def hkl_box(H, zero=False):
    out = [h for h in itertools.product(range(-H, H + 1), repeat=3) if zero or h != (0, 0, 0)]
    out.sort(key=lambda h: (sum(x * x for x in h), tuple(abs(x) for x in h), tuple(-x for x in h)))
    return out


def directions(n):
    out = []
    for v in itertools.product(range(-n, n + 1), repeat=3):
        if v == (0, 0, 0) or math.gcd(*v) != 1:
            continue
        out.append(v)
    out.sort(key=lambda v: (sum(x * x for x in v), tuple(abs(x) for x in v), tuple(-x for x in v)))
    return out


GIMBAL_BAND = [0.0, 1e-12, 1e-10, 1e-9, 3e-9, 1e-8, 1.5e-8, 2e-8, 5e-8, 1e-7, 3e-7, 1e-6, 1e-5, 1e-4, 1e-3]


def Rx(a):
    return np.array([[1, 0, 0], [0, math.cos(a), -math.sin(a)], [0, math.sin(a), math.cos(a)]])


def Ry(a):
    return np.array([[math.cos(a), 0, math.sin(a)], [0, 1, 0], [-math.sin(a), 0, math.cos(a)]])


def Rz(a):
    return np.array([[math.cos(a), -math.sin(a), 0], [math.sin(a), math.cos(a), 0], [0, 0, 1]])


def euler_ref(p1, P, p2):
    return Rz(p1) @ Rx(P) @ Rz(p2)


# ----------------------------------------------------------------------------- argument kinds (containers / dtypes callers use)


def _totuple(x):
    return tuple(_totuple(e) for e in x) if isinstance(x, list) else x


def _toint(x):
    return [_toint(e) for e in x] if isinstance(x, list) else int(x)


def kinds(x, single=True):
    """The same numbers in the containers and dtypes callers hand over: a list of (kind, object, precision) with precision
    'exact' (the very same float64 values: results must agree to rounding) or 'single' (values rounded to float32: results agree
    to single precision).  Integer kinds only when every value is a whole number; Fortran order / strided views for ndim >= 1."""
    a = np.asarray(x, float)
    whole = bool(np.all(a == np.round(a))) and bool(np.all(np.abs(a) < 2 ** 31))
    out = []
    if a.ndim == 0:
        v = float(a)
        out = [("float", v, "exact"), ("np.float64", np.float64(v), "exact"), ("0-d array", np.array(v), "exact")]
        if whole:
            out += [("int", int(v), "exact"), ("np.int64", np.int64(int(v)), "exact")]
        if single:
            out.append(("np.float32", np.float32(v), "single"))
        return out
    out.append(("list", a.tolist(), "exact"))
    out.append(("tuple", _totuple(a.tolist()), "exact"))
    out.append(("ndarray", a.copy(), "exact"))
    big = np.full(tuple(2 * n for n in a.shape), 777.25)
    view = big[tuple(slice(1, None, 2) for _ in a.shape)]
    view[...] = a
    out.append(("strided view", view, "exact"))
    if a.ndim >= 2:
        out.append(("fortran order", np.asfortranarray(a), "exact"))
        out.append(("transposed view", np.ascontiguousarray(a.T).T, "exact"))
    if a.ndim == 1:
        out.append(("list of np.float64", [np.float64(v) for v in a], "exact"))
    if whole:
        out.append(("int list", _toint(a.tolist()), "exact"))
        out.append(("int tuple", _totuple(_toint(a.tolist())), "exact"))
        out.append(("int64 array", a.astype(np.int64), "exact"))
        out.append(("int32 array", a.astype(np.int32), "exact"))
    if single:
        out.append(("float32 array", a.astype(np.float32), "single"))
    return out


def int_cells(crystal_system, cell_choice):
    """conforming cells whose six parameters are whole numbers - the way users type them: [4, 4, 6, 90, 90, 90]"""
    if crystal_system == "triclinic":
        return [[4.0, 5.0, 7.0, 80.0, 95.0, 100.0]]
    if crystal_system == "monoclinic":
        return [[4.0, 5.0, 7.0, 90.0, 100.0, 90.0]]
    if crystal_system == "orthorhombic":
        return [[4.0, 5.0, 7.0, 90.0, 90.0, 90.0]]
    if crystal_system == "tetragonal":
        return [[4.0, 4.0, 6.0, 90.0, 90.0, 90.0]]
    if crystal_system in ("trigonal", "hexagonal"):
        if cell_choice == "rhombohedral":
            return [[5.0, 5.0, 5.0, 70.0, 70.0, 70.0]]
        return [[3.0, 3.0, 5.0, 90.0, 90.0, 120.0]]
    return [[4.0, 4.0, 4.0, 90.0, 90.0, 90.0]]
