"""Ambient activity: what else a process that uses xfab may have done before the call under test.

The properties are stated per call, but a library call can be poisoned by state that OTHER public calls leave behind: a module-level
work buffer, a memo filled by another function, a table overwritten through a view, numpy's error state left on 'raise' by an error
path, a mutable default argument that doubles as output array.  Enumerating all orders of all calls is out of reach; what is done
instead is bounded and complete over a small alphabet:

  sweep("valid")  every public function of xfab.tools, xfab.laue, xfab.symmetry, xfab.detector, xfab.structure and a few objects of
                  xfab.sg / xfab.parameters is called once with generic valid arguments (synthesised from the parameter names; oblique
                  cell, non-identity rotations, non-zero strain, every crystal system for the symmetry functions);
  sweep("junk")   the same functions with one required argument at a time replaced by out-of-domain values (impossible cell, singular /
                  NaN / wrong-shape matrix, unknown name, None): whatever they return or raise is ignored.

core._run_one runs a sweep BEFORE every fourth case (valid) / every sixteenth case (junk) inside the worker process, between the
environment snapshot and the case itself, so that (a) a sweep that changes process-wide state is reported by the snapshot comparison and
(b) everything the case then verifies against its oracle is verified in a process where all those other calls have already happened.
Nothing a bystander returns is judged here (each function has its own property and check)."""
from __future__ import annotations

import inspect
import math

import numpy as np

from . import alph
from . import oracles as O

CELL = [3.1, 4.2, 5.3, 81.0, 95.5, 102.25]
HEXCELL = [3.0, 3.0, 5.0, 90.0, 90.0, 120.0]
TTH = 0.3
WL = 0.5


def _values():
    Q1 = alph.quat_to_mat((2, 1, 0, -1))
    Q2 = alph.quat_to_mat((1, 2, -1, 3))
    B = O.b_ref(CELL)
    v = np.array([math.cos(TTH), -math.sin(TTH) * math.sin(0.8), math.sin(TTH) * math.cos(0.8)])
    g = math.sin(TTH / 2) * np.array([0.36, -0.48, 0.8])
    R = alph.Rx(0.01) @ alph.Ry(-0.02) @ alph.Rz(0.03)
    return {
        "unit_cell": lambda: list(CELL), "ucell": lambda: list(CELL), "hkl": lambda: [1, -2, 3],
        "U": lambda: Q1.copy(), "U_matrix": lambda: Q1.copy(), "umat": lambda: Q1.copy(), "umat_1": lambda: Q1.copy(), "umat_2": lambda: Q2.copy(),
        "ubi": lambda: np.linalg.inv(Q1 @ B), "ubi_matrix": lambda: np.linalg.inv(Q1 @ B), "UB_matrix": lambda: Q1 @ B,
        "A_matrix": lambda: O.a_ref(CELL), "B_matrix": lambda: B.copy(), "epsilon": lambda: [0.01, -0.02, 0.005, 0.0, 0.015, -0.01],
        "phi1": lambda: 0.3, "PHI": lambda: 0.7, "phi2": lambda: 1.1, "omega": lambda: 0.4, "w": lambda: 23.0, "chi": lambda: 0.05, "wedge": lambda: -0.03,
        "w_x": lambda: 0.05, "w_y": lambda: -0.03, "tilt_x": lambda: 0.01, "tilt_y": lambda: -0.02, "tilt_z": lambda: 0.03,
        "rodriguez_vector": lambda: [0.1, -0.2, 0.3], "g_w": lambda: g.copy(), "twoth": lambda: TTH, "tth": lambda: TTH, "gve": lambda: g.copy(),
        "wavelength": lambda: WL, "eta": lambda: 0.8, "Gt": lambda: 2 * math.pi / WL * (v - np.array([1.0, 0.0, 0.0])), "costth": lambda: math.cos(TTH),
        "distance": lambda: 135.0, "L": lambda: 135.0, "y_size": lambda: 0.05, "z_size": lambda: 0.05, "py": lambda: 0.05, "pz": lambda: 0.05,
        "dety_center": lambda: 512.0, "detz_center": lambda: 500.0, "y0": lambda: 512.0, "z0": lambda: 500.0, "R_tilt": lambda: R.copy(),
        "tx": lambda: 0.1, "ty": lambda: -0.2, "tz": lambda: 0.05, "dety": lambda: 600.0, "detz": lambda: 480.0, "coor": lambda: [3.0, 5.0],
        "o11": lambda: 1, "o12": lambda: 0, "o21": lambda: 0, "o22": lambda: -1, "dety_size": lambda: 16, "detz_size": lambda: 12,
        "img": lambda: np.arange(12 * 16).reshape(12, 16), "radpix": lambda: 25.0, "sintlmin": lambda: 0.1, "sintlmax": lambda: 0.3,
        "sysconditions": lambda: [0] * 26, "syscond": lambda: [0] * 26, "atomtype": lambda: "FE", "stl": lambda: 0.3,
        "adp": lambda: [0.01, 0.02, 0.015, 0.003, -0.004, 0.005], "position": lambda: [0.1, 0.2, 0.3],
        "F2": lambda: 2.0, "P": lambda: 0.9, "I0": lambda: 3.0, "cell_vol": lambda: 60.0, "cryst_vol": lambda: 1e-3, "sgname": lambda: "P-1",
    }


JUNK = {
    "cell": [[3.0, 4.0, 5.0, 150.0, 150.0, 150.0], [3.0, 4.0, 5.0, 60.0, 60.0, 150.0], [0.0, 4.0, 5.0, 90.0, 90.0, 90.0], [3.0, 4.0, 5.0, 90.0, float("nan"), 90.0], [3.0, 4.0, 5.0], None],
    "matrix": [np.zeros((3, 3)), np.full((3, 3), float("nan")), np.eye(2), np.ones((3, 3)), None],
    "vector": [[0.0, 0.0, 0.0], [float("nan"), 1.0, 0.0], [1.0, 2.0], None],
    "scalar": [float("nan"), float("inf"), None, "x"],
    "name": ["Pxyz", "P 1 21/n 1", "P2(1)/c", "R-3c:H", "", None, 17],
}
KIND_OF = {"unit_cell": "cell", "ucell": "cell", "U": "matrix", "U_matrix": "matrix", "umat": "matrix", "umat_1": "matrix", "umat_2": "matrix", "ubi": "matrix",
           "ubi_matrix": "matrix", "UB_matrix": "matrix", "A_matrix": "matrix", "B_matrix": "matrix", "R_tilt": "matrix", "hkl": "vector", "g_w": "vector",
           "gve": "vector", "Gt": "vector", "epsilon": "vector", "rodriguez_vector": "vector", "coor": "vector", "position": "vector", "adp": "vector",
           "sgname": "name", "atomtype": "name", "costth": "scalar", "twoth": "scalar", "tth": "scalar", "stl": "scalar", "phi1": "scalar", "PHI": "scalar",
           "wavelength": "scalar", "sintlmax": "scalar", "radpix": "scalar"}

_CACHE = {}


def _functions():
    """[(qualified name, function object, {param: value factory}, extra keyword variants)] for everything that can be synthesised"""
    if "fns" in _CACHE:
        return _CACHE["fns"], _CACHE["skipped"]
    import importlib

    vals = _values()
    fns, skipped = [], []
    for mname in ("tools", "laue", "symmetry", "detector", "structure"):
        try:
            mod = importlib.import_module("xfab." + mname)
        except Exception:  # noqa: BLE001
            continue
        for name, f in sorted(vars(mod).items()):
            if not inspect.isfunction(f) or f.__module__ != "xfab." + mname or name.startswith("_"):
                continue
            try:
                ps = list(inspect.signature(f).parameters.values())
            except (TypeError, ValueError):
                skipped.append("%s.%s" % (mname, name))
                continue
            req = [p.name for p in ps if p.default is inspect._empty and p.kind in (p.POSITIONAL_OR_KEYWORD, p.KEYWORD_ONLY)]
            if any(p.kind in (p.VAR_POSITIONAL, p.VAR_KEYWORD) for p in ps):
                skipped.append("%s.%s" % (mname, name))
                continue
            if mname == "symmetry" and "crystal_system" in req:
                variants = [{"crystal_system": (lambda k=k: k)} for k in range(1, 8)]
            elif "crystal_system" in req:
                variants = [{"crystal_system": (lambda: "triclinic")}]
            else:
                variants = [{}]
            if name in ("genhkl_all", "genhkl_unique"):
                variants = [{"sgno": (lambda: 2)}, {"sgname": (lambda: "P-1"), "output_stl": (lambda: True)}]
            if name == "multiplicity":
                variants = [{"sgname": (lambda: "P 21/c")}, {"sgno": (lambda: 150)}]
            if name == "atoms" or "atoms" in req:
                def _atoms(mod=mod):
                    return [mod.atom_entry(label="a", atomtype="FE", pos=[0.1, 0.2, 0.3], adp_type="Uani", adp=[0.01, 0.02, 0.015, 0.003, -0.004, 0.005], occ=0.8, symmulti=2)]
                variants = [dict(v, atoms=_atoms) for v in variants]
            ok = all(p in vals or any(p in v for v in variants) for p in req)
            if not ok:
                skipped.append("%s.%s(%s)" % (mname, name, ",".join(p for p in req if p not in vals)))
                continue
            for v in variants:
                fns.append(("%s.%s" % (mname, name), f, {p: v.get(p, vals.get(p)) for p in req}, {k: fac for k, fac in v.items() if k not in req}))
    _CACHE["fns"], _CACHE["skipped"] = fns, skipped
    return fns, skipped


def describe():
    fns, skipped = _functions()
    return {"bystander_functions": sorted({n for n, _, _, _ in fns}), "bystander_calls_per_valid_sweep": len(fns) + 6, "not_synthesised": skipped,
            "junk_kinds": {k: len(v) for k, v in JUNK.items()}}


def _objects():
    """a few stateful / table objects of the other modules, used the way callers use them"""
    import xfab.parameters as P
    import xfab.sg as sg

    for kw in ({"sgno": 150}, {"sgname": "R-3c", "cell_choice": "rhombohedral"}, {"sgname": "P 21/c"}):
        g = sg.sg(**kw)
        np.asarray(g.rot), np.asarray(g.trans)
    p = P.parameters(alpha=1.5, beta_x=2)
    p.addpar(P.par("gamma", 3.0, helpstring="h", vary=True, can_vary=True, stepsize=0.1))
    p.set_varylist(["gamma"])
    p.set_variable_values([4.0])
    p.get_variable_values(), p.get_parameters(), p.get("alpha")


def sweep(kind="valid"):
    """run the sweep; returns the number of calls made (exceptions are swallowed: nothing is judged here)"""
    fns, _ = _functions()
    n = 0
    if kind == "valid":
        for qn, f, req, opt in fns:
            try:
                f(**{k: fac() for k, fac in list(req.items()) + list(opt.items())})
            except Exception:  # noqa: BLE001
                pass
            n += 1
        try:
            _objects()
        except Exception:  # noqa: BLE001
            pass
        return n + 6
    import signal

    class _Late(BaseException):
        pass

    def _alarm(signum, frame):
        raise _Late()

    watchdog = hasattr(signal, "setitimer")
    if watchdog:
        try:
            old_handler = signal.signal(signal.SIGALRM, _alarm)
        except ValueError:  # not in the main thread
            watchdog = False
    for qn, f, req, opt in (fns if watchdog else []):  # without a watchdog (not the main thread) no junk is fed: a call might not return
        for pname in req:
            jk = KIND_OF.get(pname)
            # the reflection generators do not terminate on an impossible cell or a NaN limit (unchanged library; outside every property):
            # only their name argument is given junk
            if jk is None or (qn.split(".")[1].startswith("genhkl") and jk != "name"):
                continue
            for junk in JUNK[jk]:
                for guarded in (True, False):
                    # second time without the errstate guard: an error path that itself changes numpy's error state must reach the snapshot
                    kw = {k: fac() for k, fac in list(req.items()) + list(opt.items())}
                    kw[pname] = junk if not isinstance(junk, np.ndarray) else junk.copy()
                    try:
                        if watchdog:
                            signal.setitimer(signal.ITIMER_REAL, 2.0)
                        if guarded:
                            with np.errstate(all="ignore"):
                                f(**kw)
                        else:
                            f(**kw)
                    except _Late:
                        break
                    except Exception:  # noqa: BLE001
                        try:
                            signal.setitimer(signal.ITIMER_REAL, 0)
                        except _Late:
                            pass
                    finally:
                        try:
                            signal.setitimer(signal.ITIMER_REAL, 0)
                        except _Late:
                            pass
                    n += 1
    if watchdog:
        signal.setitimer(signal.ITIMER_REAL, 0)
        signal.signal(signal.SIGALRM, old_handler)
    try:
        import xfab.sg as sg

        for junk in JUNK["name"]:
            try:
                sg.sg(sgname=junk)
            except Exception:  # noqa: BLE001
                pass
        for junk in (0, 231, -1, "14", None):
            try:
                sg.sg(sgno=junk)
            except Exception:  # noqa: BLE001
                pass
    except Exception:  # noqa: BLE001
        pass
    return n
