"""xmc core: repo binding, exhaustive enumeration driver, evidence, violation artefacts, known findings.

Every check is a complete enumeration of a finite, deterministic list of *cases*.  A case is a
JSON-able description of one point of the alphabet (or one small block of it); `check_case(case)`
runs the real xfab code on it, compares with the reference model written in the harness and returns
a CaseResult.  Nothing is sampled; nothing is capped by time.
"""
from __future__ import annotations

import hashlib
import json
import math
import os
import sys
import time
import traceback
import warnings

VERIF = os.path.dirname(os.path.dirname(os.path.abspath(__file__)))
REPO = os.environ.get("XMC_REPO", "/repo")
GUARD = "XFAB_VERIF"

# ----------------------------------------------------------------------------------------------
# binding to the implementation under test


def bind_repo():
    """Make `import xfab` resolve to REPO's working tree (not to any installed copy)."""
    if REPO not in sys.path[:1]:
        sys.path.insert(0, REPO)
    os.environ.setdefault(GUARD, "1")
    warnings.simplefilter("ignore")
    import logging

    logging.disable(logging.CRITICAL)
    import xfab

    got = os.path.dirname(os.path.abspath(xfab.__file__))
    want = os.path.join(os.path.abspath(REPO), "xfab")
    if os.path.realpath(got) != os.path.realpath(want):
        raise RuntimeError("xfab imported from %s, expected %s" % (got, want))
    return xfab


def seed_from_env():
    try:
        return int(os.environ.get("VERIF_SEED", "0"))
    except ValueError:
        return 0


def tier_from_env(default="quick"):
    t = os.environ.get("VERIF_TIER", default)
    return t if t in ("quick", "thorough") else default


def nproc():
    try:
        n = int(os.environ.get("XMC_PROCS", "0"))
    except ValueError:
        n = 0
    return n or min(16, os.cpu_count() or 1)


# ----------------------------------------------------------------------------------------------
# json helpers


def jsonable(x):
    import numpy as np

    if isinstance(x, dict):
        return {str(k): jsonable(v) for k, v in x.items()}
    if isinstance(x, (list, tuple, set, frozenset)):
        return [jsonable(v) for v in x]
    if isinstance(x, np.ndarray):
        return jsonable(x.tolist())
    if isinstance(x, (np.integer,)):
        return int(x)
    if isinstance(x, (np.floating,)):
        return jsonable(float(x))
    if isinstance(x, (np.bool_,)):
        return bool(x)
    if isinstance(x, float):
        if math.isnan(x) or math.isinf(x):
            return repr(x)
        return x
    if isinstance(x, complex):
        return [x.real, x.imag]
    if isinstance(x, (int, str, bool)) or x is None:
        return x
    if isinstance(x, bytes):
        return x.hex()
    try:
        from fractions import Fraction

        if isinstance(x, Fraction):
            return str(x)
    except Exception:
        pass
    return repr(x)


def digest(x, rel=1e-9):
    """Digest of an observed result with numbers rounded at `rel` relative precision."""

    def rnd(v):
        if isinstance(v, bool) or v is None or isinstance(v, str):
            return v
        if isinstance(v, int):
            return v
        if isinstance(v, float):
            if v == 0 or math.isnan(v) or math.isinf(v):
                return repr(v)
            e = math.floor(math.log10(abs(v)))
            q = 10.0 ** (e - round(-math.log10(rel)) + 1)
            return "%.0f@%d" % (round(v / q), e)
        if isinstance(v, (list, tuple)):
            return [rnd(u) for u in v]
        if isinstance(v, dict):
            return {k: rnd(u) for k, u in sorted(v.items())}
        return repr(v)

    s = json.dumps(rnd(jsonable(x)), sort_keys=True)
    return hashlib.sha256(s.encode()).hexdigest()[:16]


# ----------------------------------------------------------------------------------------------
# results


class CaseResult(object):
    """What one case contributed.

    evals       number of oracle comparisons made (each one is a real-code execution compared with
                the reference model)
    nontrivial  set of short strings naming the distinct non-trivial sub-cases hit (counted as a set
                by the driver, so the number is measured and de-duplicated)
    viol        list of violation dicts: {key, what, expected, observed, tol, [model]}
    worst       dict name -> largest normalised deviation seen (for the evidence file)
    states/transitions  optional graph counts contributed by this case
    """

    __slots__ = ("evals", "nontrivial", "viol", "worst", "states", "transitions", "traces", "extra")

    def __init__(self):
        self.evals = 0
        self.nontrivial = set()
        self.viol = []
        self.worst = {}
        self.states = 0
        self.transitions = 0
        self.traces = 0
        self.extra = {}

    def upd(self, name, value):
        try:
            v = float(value)
        except Exception:
            v = float("inf")
        if math.isnan(v):
            v = float("inf")
        if v > self.worst.get(name, -1.0):
            self.worst[name] = v
        return v

    def check(self, name, value, tol, key, what=None, expected=None, observed=None, model=None):
        """Record a deviation `value` against tolerance `tol`; returns True iff within tolerance."""
        self.evals += 1
        v = self.upd(name, value)
        if not (v <= tol):
            self.violation(key, what or name, expected, observed, tol, dev=v, model=model)
            return False
        return True

    def require(self, cond, key, what, expected=None, observed=None, model=None):
        self.evals += 1
        if not cond:
            self.violation(key, what, expected, observed, None, model=model)
            return False
        return True

    def violation(self, key, what, expected=None, observed=None, tol=None, dev=None, model=None):
        d = {"key": str(key), "what": str(what), "expected": jsonable(expected), "observed": jsonable(observed)}
        if tol is not None:
            d["tol"] = tol
        if dev is not None:
            d["dev"] = jsonable(dev)
        if model is not None:
            d["model"] = model
        self.viol.append(d)


def _run_one(args):
    """Worker: run check_case on one case, never let an exception escape silently."""
    modname, idx = args
    mod = sys.modules[modname]
    case = _CASES[idx]
    try:
        r = mod.check_case(case)
    except Exception as ex:  # a crash of the harness or of the library on a valid input
        r = CaseResult()
        r.evals = 1
        r.violation("case%d:exception" % idx, "exception while checking case: %r" % (ex,),
                    observed=traceback.format_exc()[-1500:])
    out = {"idx": idx, "evals": r.evals, "nontrivial": sorted(r.nontrivial), "viol": r.viol, "worst": r.worst,
           "states": r.states, "transitions": r.transitions, "traces": r.traces, "extra": r.extra}
    return out


_CASES = []


def run_cases(mod, cases, procs=None):
    """Run every case (complete enumeration), sharded over worker processes, merged in index order."""
    global _CASES
    _CASES = cases
    procs = procs or nproc()
    jobs = [(mod.__name__, i) for i in range(len(cases))]
    if procs <= 1 or len(cases) <= 1:
        res = [_run_one(j) for j in jobs]
    else:
        import multiprocessing as mp

        ctx = mp.get_context("fork")
        chunk = 1 if len(jobs) <= 4000 else max(1, min(64, len(jobs) // (procs * 32)))
        with ctx.Pool(procs) as pool:
            res = list(pool.imap_unordered(_run_one, jobs, chunksize=chunk))
    res.sort(key=lambda r: r["idx"])
    return res


# ----------------------------------------------------------------------------------------------
# known findings


def load_known():
    p = os.path.join(VERIF, "known_findings.json")
    if not os.path.exists(p):
        return {"findings": [], "fixed": []}
    with open(p) as f:
        return json.load(f)


def classify(prop, viols, known):
    """Split violations into (new, {finding_id: [viol,...]}).

    A violation is a known finding iff
      * defect model: the check itself recognised the closed-form wrong output (v['model'] names the
        finding) and the file lists that finding for this property; or
      * pinned input: the file lists the violation key for this property with the same digest of
        the observed result.
    """
    by = {}
    new = []
    fnd = [f for f in known.get("findings", []) if f.get("property") == prop]
    models = {f["id"]: f for f in fnd if f.get("kind") == "defect_model"}
    pins = {}
    for f in fnd:
        if f.get("kind") == "pinned":
            for k, d in f.get("pins", {}).items():
                pins[k] = (f["id"], d)
    for v in viols:
        m = v.get("model")
        if m and m in models:
            by.setdefault(m, []).append(v)
            continue
        if v["key"] in pins:
            fid, d = pins[v["key"]]
            if d == v.get("digest", digest(v.get("observed"))):
                by.setdefault(fid, []).append(v)
                continue
        new.append(v)
    return new, by, {f["id"]: f for f in fnd}


# ----------------------------------------------------------------------------------------------
# evidence and artefacts


def write_violation(prop, n, case, viol, extra=None):
    d = os.path.join(os.environ.get("XMC_OUT", os.path.join(VERIF, "out")), "violations", prop)
    os.makedirs(d, exist_ok=True)
    p = os.path.join(d, "%d.json" % n)
    with open(p, "w") as f:
        json.dump({"property": prop, "case": jsonable(case), "violation": viol, "repo": REPO,
                   "replay": "bin/replay %s" % p, "extra": jsonable(extra)}, f, indent=1)
    return p


def validate_evidence(ev):
    """Minimal structural validation mirroring EVIDENCE.schema.json (jsonschema is not in /venv)."""
    for k in ("property_id", "tier", "seed", "level", "coverage", "wall_s"):
        assert k in ev, "evidence lacks %s" % k
    assert ev["tier"] in ("quick", "thorough")
    assert isinstance(ev["seed"], int)
    cov = ev["coverage"]
    lvl = ev["level"]
    assert lvl in ("exploration", "fault_enumeration", "model_checking", "proof", "translation_validation", "other")
    assert isinstance(cov.get("evaluations"), int) and cov["evaluations"] >= 1
    assert isinstance(cov.get("distinct_nontrivial"), int) and cov["distinct_nontrivial"] >= 2
    assert isinstance(cov.get("rule"), str)
    assert isinstance(cov.get("samples"), list) and len(cov["samples"]) >= 1
    if lvl == "model_checking":
        assert isinstance(cov.get("states"), int) and cov["states"] >= 1
        assert isinstance(cov.get("transitions"), int) and cov["transitions"] >= 1
        assert isinstance(cov.get("traces_validated_against_impl"), int)
    assert isinstance(ev["wall_s"], (int, float))


def write_evidence(ev):
    validate_evidence(ev)
    d = os.environ.get("XMC_EVIDENCE_DIR", os.path.join(VERIF, "evidence"))  # mutation runs write elsewhere
    os.makedirs(d, exist_ok=True)
    p = os.path.join(d, "%s.json" % ev["property_id"])
    tmp = p + ".tmp%d" % os.getpid()
    with open(tmp, "w") as f:
        json.dump(jsonable(ev), f, indent=1, sort_keys=True)
        f.write("\n")
    os.replace(tmp, p)
    return p


def repo_state():
    import subprocess

    try:
        head = subprocess.run(["git", "-C", REPO, "rev-parse", "--short", "HEAD"], capture_output=True, text=True).stdout.strip()
        dirty = subprocess.run(["git", "-C", REPO, "status", "--porcelain", "--untracked-files=no"], capture_output=True, text=True).stdout.strip()
        return {"path": REPO, "head": head, "dirty": bool(dirty)}
    except Exception:
        return {"path": REPO}


MAX_ARTEFACTS = 20


def finish(prop, level, tier, seed, t0, cases, results, rule, assumptions, alphabet=None, extra_cov=None,
           samples=None, states=None, transitions=None, traces=None):
    """Aggregate, classify against known findings, write artefacts + evidence, print verdict lines.
    Returns process exit status."""
    evals = sum(r["evals"] for r in results)
    nontriv = set()
    worst = {}
    viols = []
    st = tr = tc = 0
    for r in results:
        nontriv.update(r["nontrivial"])
        for k, v in r["worst"].items():
            if v > worst.get(k, -1):
                worst[k] = v
        for v in r["viol"]:
            v = dict(v)
            v["case_idx"] = r["idx"]
            v.setdefault("digest", digest(v.get("observed")))
            viols.append(v)
        st += r["states"]
        tr += r["transitions"]
        tc += r["traces"]
    if states is not None:
        st = states
    if transitions is not None:
        tr = transitions
    if traces is not None:
        tc = traces
    known = load_known()
    new, by, fmeta = classify(prop, viols, known)
    paths = []
    for n, v in enumerate(new[:MAX_ARTEFACTS]):
        case = cases[v["case_idx"]] if 0 <= v["case_idx"] < len(cases) else None
        paths.append(write_violation(prop, n, case, v))
    for fid, vs in sorted(by.items()):
        print("KNOWN-FINDING: property=%s %s: %s (%d inputs)" % (prop, fid, fmeta[fid].get("what", ""), len(vs)))
    for p in paths:
        print("VIOLATION property=%s replay=%s" % (prop, p))
    if len(new) > len(paths):
        print("(%d further violations of %s not written as artefacts)" % (len(new) - len(paths), prop))
    cov = {
        "evaluations": int(evals),
        "distinct_nontrivial": int(len(nontriv)),
        "rule": rule,
        "samples": jsonable(samples if samples is not None else [cases[i] for i in sorted({0, len(cases) // 2, len(cases) - 1}) if cases]),
        "states": int(st if st else len(cases)),
        "transitions": int(tr if tr else evals),
        "traces_validated_against_impl": int(tc if tc else evals),
        "exhaustive": True,
        "cases": len(cases),
        "worst_deviation": {k: worst[k] for k in sorted(worst)},
        "known_finding_matches": {k: len(v) for k, v in sorted(by.items())},
        "new_violations": len(new),
        "first_new_violations": [{k: v.get(k) for k in ("key", "what", "dev", "tol")} for v in new[:5]],
    }
    if alphabet is not None:
        cov["alphabet"] = alphabet
    if extra_cov:
        cov.update(extra_cov)
    ev = {
        "property_id": prop,
        "tier": tier,
        "seed": int(seed),
        "level": level,
        "coverage": cov,
        "assumptions": list(assumptions),
        "wall_s": round(time.time() - t0, 3),
        "violations": len(new),
        "repo": repo_state(),
    }
    p = write_evidence(ev)
    print("%s %s: cases=%d evaluations=%d distinct_nontrivial=%d states=%d transitions=%d new_violations=%d known=%d wall=%.1fs evidence=%s"
          % (prop, tier, len(cases), evals, len(nontriv), cov["states"], cov["transitions"], len(new), sum(len(v) for v in by.values()),
             ev["wall_s"], p))
    return 1 if new else 0
