"""xmc core: repo binding, exhaustive enumeration driver, evidence, violation artefacts, known findings.

Every check is a complete enumeration of a finite, deterministic list of *cases*.  A case is a
JSON-able description of one point of the alphabet (or one small block of it); `check_case(case)`
runs the real xfab code on it, compares with the reference model written in the harness and returns
a CaseResult.  Nothing is sampled; nothing is capped by time.
"""
from __future__ import annotations

import hashlib
import json
import math
import os
import sys
import time
import traceback
import warnings

VERIF = os.path.dirname(os.path.dirname(os.path.abspath(__file__)))
REPO = os.environ.get("XMC_REPO", "/repo")
GUARD = "XFAB_VERIF"

# ----------------------------------------------------------------------------------------------
# binding to the implementation under test


def bind_repo():
    """Make `import xfab` resolve to REPO's working tree (not to any installed copy)."""
    if REPO not in sys.path[:1]:
        sys.path.insert(0, REPO)
    os.environ.setdefault(GUARD, "1")
    warnings.simplefilter("ignore")
    import logging

    logging.disable(logging.CRITICAL)
    import xfab

    got = os.path.dirname(os.path.abspath(xfab.__file__))
    want = os.path.join(os.path.abspath(REPO), "xfab")
    if os.path.realpath(got) != os.path.realpath(want):
        raise RuntimeError("xfab imported from %s, expected %s" % (got, want))
    # environment: every module of the package is imported before anything is checked, so that import-time side effects of one
    # module on the shared tables of another (name dictionary, constants, numpy print options) are present in every check
    import importlib
    import pkgutil

    for m in pkgutil.iter_modules(xfab.__path__):
        try:
            importlib.import_module("xfab." + m.name)
        except Exception:  # a module that cannot be imported is the business of the checks that use it
            pass
    return xfab


def seed_from_env():
    try:
        return int(os.environ.get("VERIF_SEED", "0"))
    except ValueError:
        return 0


def tier_from_env(default="quick"):
    t = os.environ.get("VERIF_TIER", default)
    return t if t in ("quick", "thorough") else default


def nproc():
    try:
        n = int(os.environ.get("XMC_PROCS", "0"))
    except ValueError:
        n = 0
    return n or min(16, os.cpu_count() or 1)


# ----------------------------------------------------------------------------------------------
# json helpers


def jsonable(x):
    import numpy as np

    if isinstance(x, dict):
        return {str(k): jsonable(v) for k, v in x.items()}
    if isinstance(x, (list, tuple, set, frozenset)):
        return [jsonable(v) for v in x]
    if isinstance(x, np.ndarray):
        return jsonable(x.tolist())
    if isinstance(x, (np.integer,)):
        return int(x)
    if isinstance(x, (np.floating,)):
        return jsonable(float(x))
    if isinstance(x, (np.bool_,)):
        return bool(x)
    if isinstance(x, float):
        if math.isnan(x) or math.isinf(x):
            return repr(x)
        return x
    if isinstance(x, complex):
        return [x.real, x.imag]
    if isinstance(x, (int, str, bool)) or x is None:
        return x
    if isinstance(x, bytes):
        return x.hex()
    try:
        from fractions import Fraction

        if isinstance(x, Fraction):
            return str(x)
    except Exception:
        pass
    return repr(x)


def digest(x, rel=1e-9):
    """Digest of an observed result with numbers rounded at `rel` relative precision."""

    def rnd(v):
        if isinstance(v, bool) or v is None or isinstance(v, str):
            return v
        if isinstance(v, int):
            return v
        if isinstance(v, float):
            if v == 0 or math.isnan(v) or math.isinf(v):
                return repr(v)
            e = math.floor(math.log10(abs(v)))
            q = 10.0 ** (e - round(-math.log10(rel)) + 1)
            return "%.0f@%d" % (round(v / q), e)
        if isinstance(v, (list, tuple)):
            return [rnd(u) for u in v]
        if isinstance(v, dict):
            return {k: rnd(u) for k, u in sorted(v.items())}
        return repr(v)

    s = json.dumps(rnd(jsonable(x)), sort_keys=True)
    return hashlib.sha256(s.encode()).hexdigest()[:16]


# ----------------------------------------------------------------------------------------------
# results


class CaseResult(object):
    """What one case contributed.

    evals       number of oracle comparisons made (each one is a real-code execution compared with
                the reference model)
    nontrivial  set of short strings naming the distinct non-trivial sub-cases hit (counted as a set
                by the driver, so the number is measured and de-duplicated)
    viol        list of violation dicts: {key, what, expected, observed, tol, [model]}
    worst       dict name -> largest normalised deviation seen (for the evidence file)
    states/transitions  optional graph counts contributed by this case
    """

    __slots__ = ("evals", "nontrivial", "viol", "worst", "states", "transitions", "traces", "extra")

    def __init__(self):
        self.evals = 0
        self.nontrivial = set()
        self.viol = []
        self.worst = {}
        self.states = 0
        self.transitions = 0
        self.traces = 0
        self.extra = {}

    def upd(self, name, value):
        try:
            v = float(value)
        except Exception:
            v = float("inf")
        if math.isnan(v):
            v = float("inf")
        if v > self.worst.get(name, -1.0):
            self.worst[name] = v
        return v

    def check(self, name, value, tol, key, what=None, expected=None, observed=None, model=None):
        """Record a deviation `value` against tolerance `tol`; returns True iff within tolerance."""
        self.evals += 1
        v = self.upd(name, value)
        if not (v <= tol):
            self.violation(key, what or name, expected, observed, tol, dev=v, model=model)
            return False
        return True

    def require(self, cond, key, what, expected=None, observed=None, model=None):
        self.evals += 1
        if not cond:
            self.violation(key, what, expected, observed, None, model=model)
            return False
        return True

    def violation(self, key, what, expected=None, observed=None, tol=None, dev=None, model=None):
        d = {"key": str(key), "what": str(what), "expected": jsonable(expected), "observed": jsonable(observed)}
        if tol is not None:
            d["tol"] = tol
        if dev is not None:
            d["dev"] = jsonable(dev)
        if model is not None:
            d["model"] = model
        self.viol.append(d)


def env_snapshot():
    """Process-wide state a library call must leave as it found it (whether it returns or raises): the package switch, numpy's error
    state and print options, the public tables other calls read (name dictionary, form-factor table), the working directory.  Returned as {item: comparable value}."""
    import numpy as np

    snap = {"numpy.geterr": dict(np.geterr()), "numpy.printoptions": {k: (v if not callable(v) else "callable") for k, v in np.get_printoptions().items()},
            "cwd": os.getcwd(), "recursionlimit": sys.getrecursionlimit()}
    x = sys.modules.get("xfab")
    if x is not None and hasattr(x, "CHECKS"):
        try:
            snap["xfab.CHECKS.activated"] = bool(x.CHECKS.activated)
        except Exception as ex:  # noqa: BLE001
            snap["xfab.CHECKS.activated"] = repr(ex)
    m = sys.modules.get("xfab.sg")
    if m is not None and hasattr(m, "sgdic"):
        snap["xfab.sg.sgdic"] = hash(tuple(sorted((str(k), str(v)) for k, v in m.sgdic.items())))
    m = sys.modules.get("xfab.atomlib")
    if m is not None and hasattr(m, "formfactor"):
        snap["xfab.atomlib.formfactor"] = hash(tuple(sorted((str(k), tuple(float(z) for z in v)) for k, v in m.formfactor.items())))
    return snap


def env_restore(before):
    import numpy as np

    try:
        np.seterr(**before["numpy.geterr"])
        po = {k: v for k, v in before["numpy.printoptions"].items() if v != "callable"}
        np.set_printoptions(**po)
        os.chdir(before["cwd"])
        x = sys.modules.get("xfab")
        if x is not None and isinstance(before.get("xfab.CHECKS.activated"), bool):
            x.CHECKS.activated = before["xfab.CHECKS.activated"]
    except Exception:  # noqa: BLE001
        pass


def _run_one(args):
    """Worker: run check_case on one case, never let an exception escape silently.  The process-wide state (env_snapshot) is compared
    before / after the case: the harness restores whatever it alters itself, so a difference was made by a library call."""
    modname, idx = args
    mod = sys.modules[modname]
    case = _CASES[idx]
    before = env_snapshot()
    # environment alphabet, part "logging": half of the cases run with xfab's loggers enabled at DEBUG (into a sink), half with logging
    # disabled; which half flips in the second schedule.  Results must not depend on it.
    debug_on = (bin(idx).count("1") + _PASS) % 2 == 1
    set_logging(debug_on)
    # ambient activity (xmc/ambient.py): before every fourth case every other public function of the package is called once with valid
    # arguments, before every sixteenth with out-of-domain arguments, in this same process
    swept = None
    ncalls = 0
    if not getattr(mod, "NO_AMBIENT", False):
        try:
            from . import ambient

            if idx % 4 == 1:
                ncalls = ambient.sweep("valid")
                swept = "valid"
            if idx % 16 == 3:
                ncalls = ambient.sweep("junk")
                swept = "junk"
        except (KeyboardInterrupt, SystemExit):
            raise
        except BaseException:  # noqa: BLE001  (incl. the sweep's own watchdog exception, should it surface late)
            pass
    try:
        r = mod.check_case(case)
    except Exception as ex:  # a crash of the harness or of the library on a valid input
        r = CaseResult()
        r.evals = 1
        r.violation("case%d:exception" % idx, "exception while checking case: %r" % (ex,),
                    observed=traceback.format_exc()[-1500:])
    set_logging(False)
    after = env_snapshot()
    for k in before:
        r.evals += 1
        if after.get(k) != before[k]:
            r.violation("case%d:environment:%s%s" % (idx, k, "" if not swept else ":after-%s-sweep" % swept),
                        "library calls leave process-wide state as they found it (%s), whether they return or raise" % k, before[k], after.get(k))
    if after != before:
        env_restore(before)
    if swept or debug_on:
        r.extra = dict(r.extra or {})
        if swept:
            r.extra["ambient_sweep"] = swept
            r.extra["ambient_calls"] = ncalls
        for v in r.viol:
            v.setdefault("context", {})
            v["context"].update({"logging_debug": debug_on, "ambient_sweep_before_case": swept})
    out = {"idx": idx, "evals": r.evals, "nontrivial": sorted(r.nontrivial), "viol": r.viol, "worst": r.worst,
           "states": r.states, "transitions": r.transitions, "traces": r.traces, "extra": r.extra}
    return out


_CASES = []
_PASS = 0  # 0: main schedule, 1: second (reverse) schedule; flips the logging half
_SINK = None


def set_logging(debug):
    """xfab's module loggers write to stderr through their own StreamHandlers: enabled = level DEBUG with the handlers' streams pointed at
    os.devnull (every message is still formatted and emitted); disabled = logging.disable(CRITICAL), the state bind_repo leaves."""
    import logging

    global _SINK
    names = [n for n in list(logging.root.manager.loggerDict) if n == "xfab" or n.startswith("xfab.")]
    if debug:
        if _SINK is None:
            _SINK = open(os.devnull, "w")
        logging.disable(logging.NOTSET)
        for n in names:
            lg = logging.getLogger(n)
            lg.setLevel(logging.DEBUG)
            for h in lg.handlers:
                if isinstance(h, logging.StreamHandler) and h.stream is not _SINK:
                    try:
                        h.setStream(_SINK)
                    except Exception:  # noqa: BLE001
                        pass
    else:
        for n in names:
            logging.getLogger(n).setLevel(logging.NOTSET)
        logging.disable(logging.CRITICAL)


def run_cases(mod, cases, procs=None, order=None, contiguous=False):
    """Run every case (complete enumeration), sharded over worker processes, merged in index order.

    order       list of case indices to run (default: all, ascending)
    contiguous  False: cases are dealt out one at a time (each worker sees an interleaved ascending subsequence);
                True: each worker gets one contiguous block of `order` (used by the reverse-schedule pass, so that
                every case is also evaluated after a different set of predecessors, in the opposite order)."""
    global _CASES, _PASS
    _CASES = cases
    _PASS = 1 if contiguous else 0
    procs = procs or nproc()
    idxs = list(range(len(cases))) if order is None else list(order)
    jobs = [(mod.__name__, i) for i in idxs]
    if procs <= 1 or len(jobs) <= 1:
        res = [_run_one(j) for j in jobs]
    else:
        import multiprocessing as mp
        from concurrent.futures import ProcessPoolExecutor
        from concurrent.futures.process import BrokenProcessPool

        ctx = mp.get_context("fork")
        if contiguous:
            chunk = max(1, -(-len(jobs) // (procs * 6)))  # contiguous blocks, small enough that a run of costly cases does not end up in one worker
        else:
            chunk = 1 if len(jobs) <= 4000 else max(1, min(64, len(jobs) // (procs * 32)))
        res = []
        try:
            # (a worker process that dies - a hard crash inside the library - breaks the pool instead of leaving the run waiting for ever)
            with ProcessPoolExecutor(max_workers=procs, mp_context=ctx) as ex:
                for out in ex.map(_run_one, jobs, chunksize=chunk):
                    res.append(out)
        except BrokenProcessPool:
            done = {r["idx"] for r in res}
            for j in jobs:
                if j[1] in done:
                    continue
                # one fresh process per remaining case, so that the case that kills its process is identified and reported
                try:
                    with ProcessPoolExecutor(max_workers=1, mp_context=ctx) as ex1:
                        res.append(ex1.submit(_run_one, j).result())
                except BrokenProcessPool:
                    r = CaseResult()
                    r.evals = 1
                    r.violation("case%d:worker-died" % j[1], "the process running this case died (hard crash inside a library call)", None, "process exited abnormally")
                    res.append({"idx": j[1], "evals": r.evals, "nontrivial": [], "viol": r.viol, "worst": {}, "states": 0, "transitions": 0, "traces": 0, "extra": {}})
    res.sort(key=lambda r: r["idx"])
    return res


def merge_second_schedule(results, results2):
    """Fold the results of the reverse-schedule pass into the main results: a violation that only the second schedule
    shows is kept (tagged), evaluations are counted separately."""
    by = {r["idx"]: r for r in results}
    extra_evals = 0
    only_second = 0
    for r2 in results2:
        r = by[r2["idx"]]
        extra_evals += r2["evals"]
        have = {v["key"] for v in r["viol"]}
        for v in r2["viol"]:
            if v["key"] not in have:
                v = dict(v)
                v["what"] = v["what"] + " [only in the reverse-order schedule: the result depends on call history]"
                r["viol"].append(v)
                only_second += 1
        r["evals"] += r2["evals"]
        r["transitions"] += r2["transitions"]
    return {"second_schedule_cases": len(results2), "second_schedule_evaluations": extra_evals, "violations_only_in_second_schedule": only_second}


# ----------------------------------------------------------------------------------------------
# known findings


def load_known():
    p = os.path.join(VERIF, "known_findings.json")
    if not os.path.exists(p):
        return {"findings": [], "fixed": []}
    with open(p) as f:
        return json.load(f)


def classify(prop, viols, known):
    """Split violations into (new, {finding_id: [viol,...]}).

    A violation is a known finding iff
      * defect model: the check itself recognised the closed-form wrong output (v['model'] names the
        finding) and the file lists that finding for this property; or
      * pinned input: the file lists the violation key for this property with the same digest of
        the observed result.
    """
    by = {}
    new = []
    fnd = [f for f in known.get("findings", []) if f.get("property") == prop]
    models = {f["id"]: f for f in fnd if f.get("kind") == "defect_model"}
    pins = {}
    for f in fnd:
        if f.get("kind") == "pinned":
            for k, d in f.get("pins", {}).items():
                pins[k] = (f["id"], d)
    for v in viols:
        m = v.get("model")
        if m and m in models:
            by.setdefault(m, []).append(v)
            continue
        if v["key"] in pins:
            fid, d = pins[v["key"]]
            if d == v.get("digest", digest(v.get("observed"))):
                by.setdefault(fid, []).append(v)
                continue
        new.append(v)
    return new, by, {f["id"]: f for f in fnd}


# ----------------------------------------------------------------------------------------------
# evidence and artefacts


def write_violation(prop, n, case, viol, extra=None):
    d = os.path.join(os.environ.get("XMC_OUT", os.path.join(VERIF, "out")), "violations", prop)
    os.makedirs(d, exist_ok=True)
    p = os.path.join(d, "%d.json" % n)
    with open(p, "w") as f:
        json.dump({"property": prop, "case": jsonable(case), "violation": viol, "repo": REPO,
                   "replay": "bin/replay %s" % p, "extra": jsonable(extra)}, f, indent=1)
    return p


def validate_evidence(ev):
    """Minimal structural validation mirroring EVIDENCE.schema.json (jsonschema is not in /venv)."""
    for k in ("property_id", "tier", "seed", "level", "coverage", "wall_s"):
        assert k in ev, "evidence lacks %s" % k
    assert ev["tier"] in ("quick", "thorough")
    assert isinstance(ev["seed"], int)
    cov = ev["coverage"]
    lvl = ev["level"]
    assert lvl in ("exploration", "fault_enumeration", "model_checking", "proof", "translation_validation", "other")
    assert isinstance(cov.get("evaluations"), int) and cov["evaluations"] >= 1
    assert isinstance(cov.get("distinct_nontrivial"), int) and cov["distinct_nontrivial"] >= 2
    assert isinstance(cov.get("rule"), str)
    assert isinstance(cov.get("samples"), list) and len(cov["samples"]) >= 1
    if lvl == "model_checking":
        assert isinstance(cov.get("states"), int) and cov["states"] >= 1
        assert isinstance(cov.get("transitions"), int) and cov["transitions"] >= 1
        assert isinstance(cov.get("traces_validated_against_impl"), int)
    assert isinstance(ev["wall_s"], (int, float))


def write_evidence(ev):
    validate_evidence(ev)
    d = os.environ.get("XMC_EVIDENCE_DIR", os.path.join(VERIF, "evidence"))  # mutation runs write elsewhere
    os.makedirs(d, exist_ok=True)
    p = os.path.join(d, "%s.json" % ev["property_id"])
    tmp = p + ".tmp%d" % os.getpid()
    with open(tmp, "w") as f:
        json.dump(jsonable(ev), f, indent=1, sort_keys=True)
        f.write("\n")
    os.replace(tmp, p)
    return p


def repo_state():
    import subprocess

    try:
        head = subprocess.run(["git", "-C", REPO, "rev-parse", "--short", "HEAD"], capture_output=True, text=True).stdout.strip()
        dirty = subprocess.run(["git", "-C", REPO, "status", "--porcelain", "--untracked-files=no"], capture_output=True, text=True).stdout.strip()
        return {"path": REPO, "head": head, "dirty": bool(dirty)}
    except Exception:
        return {"path": REPO}


MAX_ARTEFACTS = 20


def finish(prop, level, tier, seed, t0, cases, results, rule, assumptions, alphabet=None, extra_cov=None,
           samples=None, states=None, transitions=None, traces=None):
    """Aggregate, classify against known findings, write artefacts + evidence, print verdict lines.
    Returns process exit status."""
    evals = sum(r["evals"] for r in results)
    nontriv = set()
    worst = {}
    viols = []
    st = tr = tc = 0
    for r in results:
        nontriv.update(r["nontrivial"])
        for k, v in r["worst"].items():
            if v > worst.get(k, -1):
                worst[k] = v
        for v in r["viol"]:
            v = dict(v)
            v["case_idx"] = r["idx"]
            v.setdefault("digest", digest(v.get("observed")))
            viols.append(v)
        st += r["states"]
        tr += r["transitions"]
        tc += r["traces"]
    if states is not None:
        st = states
    if transitions is not None:
        tr = transitions
    if traces is not None:
        tc = traces
    known = load_known()
    new, by, fmeta = classify(prop, viols, known)
    paths = []
    vd = os.path.join(os.environ.get("XMC_OUT", os.path.join(VERIF, "out")), "violations", prop)
    if os.path.isdir(vd):  # artefacts of an earlier run of this check are stale
        for fn_ in os.listdir(vd):
            if fn_.endswith(".json"):
                os.remove(os.path.join(vd, fn_))
    for n, v in enumerate(new[:MAX_ARTEFACTS]):
        case = cases[v["case_idx"]] if 0 <= v["case_idx"] < len(cases) else None
        paths.append(write_violation(prop, n, case, v))
    for fid, vs in sorted(by.items()):
        print("KNOWN-FINDING: property=%s %s: %s (%d inputs)" % (prop, fid, fmeta[fid].get("what", ""), len(vs)))
    for p in paths:
        print("VIOLATION property=%s replay=%s" % (prop, p))
    if len(new) > len(paths):
        print("(%d further violations of %s not written as artefacts)" % (len(new) - len(paths), prop))
    cov = {
        "evaluations": int(evals),
        "distinct_nontrivial": int(len(nontriv)),
        "rule": rule,
        "samples": jsonable(samples if samples is not None else [cases[i] for i in sorted({0, len(cases) // 2, len(cases) - 1}) if cases]),
        "states": int(st if st else len(cases)),
        "transitions": int(tr if tr else evals),
        "traces_validated_against_impl": int(tc if tc else evals),
        "exhaustive": True,
        "cases": len(cases),
        "worst_deviation": {k: worst[k] for k in sorted(worst)},
        "known_finding_matches": {k: len(v) for k, v in sorted(by.items())},
        "new_violations": len(new),
        "first_new_violations": [{k: v.get(k) for k in ("key", "what", "dev", "tol")} for v in new[:5]],
    }
    if alphabet is not None:
        cov["alphabet"] = alphabet
    if extra_cov:
        cov.update(extra_cov)
    # how each case was surrounded (see _run_one): environment snapshot compared around every case; ambient sweeps; logging half
    try:
        from . import ambient

        d = ambient.describe()
        cov["case_environment"] = {
            "environment_snapshot_compared_around_every_case": sorted(env_snapshot()),
            "cases_preceded_by_valid_sweep_of_other_public_functions": sum(1 for r in results if (r.get("extra") or {}).get("ambient_sweep") == "valid"),
            "cases_preceded_by_junk_argument_sweep": sum(1 for r in results if (r.get("extra") or {}).get("ambient_sweep") == "junk"),
            "bystander_functions": len(d["bystander_functions"]), "calls_per_valid_sweep": d["bystander_calls_per_valid_sweep"],
            "bystander_calls_made": sum(int((r.get("extra") or {}).get("ambient_calls", 0)) for r in results),
            "functions_not_synthesised": d["not_synthesised"],
            "logging": "cases with an odd number of 1-bits in their index run with xfab's loggers at DEBUG (sink), the others with logging disabled; flipped in the second schedule",
        }
    except Exception:  # noqa: BLE001
        pass
    ev = {
        "property_id": prop,
        "tier": tier,
        "seed": int(seed),
        "level": level,
        "coverage": cov,
        "assumptions": list(assumptions),
        "wall_s": round(time.time() - t0, 3),
        "violations": len(new),
        "repo": repo_state(),
    }
    p = write_evidence(ev)
    print("%s %s: cases=%d evaluations=%d distinct_nontrivial=%d states=%d transitions=%d new_violations=%d known=%d wall=%.1fs evidence=%s"
          % (prop, tier, len(cases), evals, len(nontriv), cov["states"], cov["transitions"], len(new), sum(len(v) for v in by.values()),
             ev["wall_s"], p))
    return 1 if new else 0


# ----------------------------------------------------------------------------------------------
# history probe for "pure" functions: call, let the caller modify the returned object in place, call again


def _copy(x):
    import copy

    return copy.deepcopy(x)


def scribble(x):
    """Modify a returned object in place, the way a caller who owns it may (negate and shift every number)."""
    import numpy as np

    if isinstance(x, np.ndarray):
        if x.size and x.flags.writeable and x.dtype.kind in "fiu":
            try:
                np.negative(x, out=x)
                x += 3
            except Exception:
                pass
    elif isinstance(x, list):
        for i, e in enumerate(x):
            if isinstance(e, (list, tuple, np.ndarray)):
                scribble(e)
            elif isinstance(e, (int, float)) and not isinstance(e, bool):
                x[i] = -e + 3
    elif isinstance(x, tuple):
        for e in x:
            scribble(e)


def same_value(a, b):
    import numpy as np

    if isinstance(a, (tuple, list)) and isinstance(b, (tuple, list)):
        return len(a) == len(b) and all(same_value(x, y) for x, y in zip(a, b))
    try:
        a_ = np.asarray(a)
        b_ = np.asarray(b)
        if a_.shape != b_.shape:
            return False
        if a_.dtype.kind in "fc" or b_.dtype.kind in "fc":
            return bool(np.all((a_ == b_) | (np.isnan(a_) & np.isnan(b_))))
        return bool(np.all(a_ == b_))
    except Exception:
        return a == b


def _is_container(x):
    import numpy as np

    if isinstance(x, np.ndarray):
        return x.dtype.kind in "fiubc"
    if isinstance(x, list) or (isinstance(x, tuple) and any(isinstance(e, (list, np.ndarray, tuple)) for e in x)):
        try:
            return np.asarray(x).dtype.kind in "fiubc"  # numeric (nested) sequences only; lists of objects are not compared
        except Exception:  # noqa: BLE001
            return False
    return False


def _snap_args(args, kw):
    """deep copies of the mutable numeric containers among the arguments (position / keyword -> copy)"""
    import copy

    out = {}
    for k, v in list(enumerate(args)) + list(kw.items()):
        if _is_container(v):
            try:
                out[k] = copy.deepcopy(v)
            except Exception:  # noqa: BLE001
                pass
    return out


def _args_unchanged(r, key, snap, args, kw):
    """a call must leave the caller's argument objects as they were (the caller goes on using them)"""
    for k, before in snap.items():
        now = args[k] if isinstance(k, int) else kw[k]
        r.evals += 1
        if not same_value(before, now):
            r.violation("%s:argument-%s-modified" % (key, k), "a call leaves the argument objects of its caller unchanged", _short(before), _short(now))


def twice(r, key, fn, *args, **kw):
    """History probe for functions that should behave as pure functions of their argument VALUES.

      r1 = fn(args)                      first call; a copy c1 is kept
      fn(_other)                         (optional) an unrelated call in between; r1 must still equal c1
                                         (a result must not be a view of a buffer the next call overwrites)
      scribble(r1)                       the caller edits the object it was given, in place
      r2 = fn(args)                      same argument objects again; r2 must equal c1 bit for bit
                                         (no memo poisoned by the caller, no argument modified in place by the first call)

    Returns the clean copy c1.  It is a length-3/4 history executed on every input it is applied to."""
    sort_rows = kw.pop("_sort_rows", False)
    other = kw.pop("_other", None)
    snap = _snap_args(args, kw)
    r1 = fn(*args, **kw)
    c1 = _copy(r1)
    _args_unchanged(r, key, snap, args, kw)
    if other is not None:
        fn(*other)
        r.evals += 1
        if not same_value(r1, c1):
            r.violation(key + ":earlier-result", "a result already returned is not changed by a later call with other arguments", _short(c1), _short(r1))
            r1 = _copy(c1)
    scribble(r1)
    s1 = _copy(r1)
    r2 = fn(*args, **kw)
    r.evals += 1
    if not same_value(r1, s1):
        # the object handed out by the first call belongs to the caller: a later call must not write into it (a result that is a view of
        # an internal buffer, a mutable default argument used as output array)
        r.violation(key + ":first-result-overwritten", "an object already returned to the caller (and edited by the caller) is not modified by a later call", _short(s1), _short(r1))
    a, b = c1, r2
    if sort_rows:
        import numpy as np

        a = np.asarray(a, float)
        b = np.asarray(b, float)
        if a.ndim == 2 and b.ndim == 2 and a.shape == b.shape and a.size:
            a = a[np.lexsort(a.T[::-1])]
            b = b[np.lexsort(b.T[::-1])]
    r.evals += 1
    if not same_value(a, b):
        r.violation(key + ":second-call", "a second call with the same argument objects (after the caller modified the first result in place) returns the same value",
                    _short(c1), _short(r2))
    return c1


def _short(x):
    if hasattr(x, "shape") and getattr(x, "size", 0) >= 40:
        return "array%s" % (getattr(x, "shape", ""),)
    return jsonable(x)


def reuse(r, key, fn, obj, mutate, oracle_ok, what="a call with an argument object the caller has edited in place since the previous call uses its current contents"):
    """History probe: fn(obj); caller edits obj in place (mutate(obj)); fn(obj) again.  oracle_ok(result) -> bool decides the
    second result against the reference model for the NEW contents.  Exposes memo tables keyed on object identity."""
    fn(obj)
    mutate(obj)
    try:
        out = fn(obj)
        ok = oracle_ok(out)
    except Exception as ex:
        out = ex
        ok = oracle_ok(ex)
    r.evals += 1
    if not ok:
        r.violation(key + ":reused-object", what, None, repr(out)[:300])


def covering_walk(n):
    """indices 0..n-1 arranged so that every ordered pair (i, j), including i = j, occurs consecutively at least once"""
    seq = []
    for i in range(n):
        for j in range(n):
            seq += [i, j]
    return seq


def _outcome(fn, args, kw):
    try:
        return ("ok", fn(*args, **kw))
    except Exception as ex:  # noqa: BLE001
        return ("raise", ex)


def _flat(x):
    """all numbers of a (nested) result as one float vector, or None if it holds something else"""
    import numpy as np

    try:
        if isinstance(x, (list, tuple)) and any(isinstance(e, (list, tuple, np.ndarray)) for e in x):
            parts = [_flat(e) for e in x]
            if any(p is None for p in parts):
                return None
            return np.concatenate(parts) if parts else np.zeros(0)
        a = np.asarray(x)
        if a.dtype.kind in "fiub":
            return a.astype(float).reshape(-1)
        if a.dtype.kind == "c":
            return np.concatenate([a.real.reshape(-1), a.imag.reshape(-1)])
    except Exception:
        pass
    return None


def param_names(fn):
    import inspect

    try:
        ps = list(inspect.signature(fn).parameters.values())
    except (TypeError, ValueError):
        return None
    if any(p.kind in (p.VAR_POSITIONAL, p.VAR_KEYWORD, p.POSITIONAL_ONLY) for p in ps):
        return None
    return [p.name for p in ps]


def variants(r, key, fn, args, pos, tol_exact, tol_single, names=None, skip=(), dev=None, kinds=None, what=None, model=None, oracle=None):
    """Argument-kind x call-form probe.  fn(*args) is the reference outcome (float64 containers as built by the harness, positional);
    the argument at `pos` is then passed in every kind of alph.kinds (list, tuple, ndarray, strided view, Fortran order, whole numbers
    as ints / integer arrays, float32) x {positional, every argument by keyword}; each outcome must be the reference outcome:
    both raise, or both return and the numbers agree within tol_exact (same float64 values) / tol_single (float32 input).
    `names`: the documented parameter names (default: read from the signature); `dev(ref, got)`: custom deviation."""
    import numpy as np
    from . import alph

    args = list(args)
    if oracle is not None:
        # low-precision kinds FIRST (a memo keyed on the value would be filled at their precision), then the float64 reference call, which
        # is judged against the independent expected value `oracle`
        for kind, obj, prec in (kinds if kinds is not None else alph.kinds(args[pos])):
            if kind in skip or prec != "single" and not kind.startswith("int") and kind != "np.int64":
                continue
            a = list(args)
            a[pos] = obj
            _outcome(fn, a, {})
    ref = _outcome(fn, args, {})
    if oracle is not None:
        r.evals += 1
        fr, fo = (_flat(ref[1]) if ref[0] == "ok" else None), _flat(oracle)
        d0 = float("inf") if fr is None or fo is None or fr.shape != fo.shape else (float(np.max(np.abs(fr - fo))) / max(1.0, float(np.max(np.abs(fo)))) if fo.size else 0.0)
        if not d0 <= tol_exact:
            r.violation("%s:arg%d:float64-after-low-precision-calls" % (key, pos),
                        "the result for float64 arguments does not depend on earlier calls with the same value in lower precision", _short(oracle),
                        _short(ref[1]) if ref[0] == "ok" else repr(ref[1]), tol_exact, d0, model=model)
    names = names or param_names(fn)
    n = 0
    for kind, obj, prec in (kinds if kinds is not None else alph.kinds(args[pos])):
        if kind in skip or (prec == "single" and tol_single is None):
            continue
        a = list(args)
        a[pos] = obj
        forms = [("positional", a, {})]
        if names is not None and len(names) >= len(a):
            forms.append(("keywords", [], dict(zip(names, a))))
        for form, fa, fk in forms:
            snap = _snap_args(fa, fk)
            got = _outcome(fn, fa, fk)
            r.evals += 1
            n += 1
            k = "%s:arg%d=%s:%s" % (key, pos, kind, form)
            _args_unchanged(r, k, snap, fa, fk)
            w = what or "the result does not depend on the container / dtype of an argument nor on positional vs keyword passing"
            if ref[0] != got[0]:
                r.violation(k, w, _short(ref[1]) if ref[0] == "ok" else repr(ref[1]), _short(got[1]) if got[0] == "ok" else repr(got[1]), model=model)
                continue
            if ref[0] == "raise":
                continue
            tol = tol_exact if prec == "exact" else tol_single
            if dev is not None:
                d = dev(ref[1], got[1])
            else:
                fr, fg = _flat(ref[1]), _flat(got[1])
                if fr is None or fg is None:
                    d = 0.0 if same_value(ref[1], got[1]) else float("inf")
                elif fr.shape != fg.shape:
                    d = float("inf")
                elif fr.size == 0:
                    d = 0.0
                else:
                    both_nan = np.isnan(fr) & np.isnan(fg)
                    dd = np.where(both_nan, 0.0, np.abs(fr - fg))
                    d = float(np.max(dd)) / max(1.0, float(np.nanmax(np.abs(fr))) if np.any(~np.isnan(fr)) else 1.0)
            if not d <= tol:
                r.violation(k, w, _short(ref[1]), _short(got[1]), tol, d, model=model)
    return n


def poke(r, key, fn, junk):
    """Error-path probe.  `junk` is a list of argument tuples OUTSIDE the property's domain (impossible cells, singular or NaN matrices,
    wrong shapes, unknown names, None).  What the call does with them is not judged - it may raise anything or return anything - but it
    must leave the process-wide state (env_snapshot) as it found it; the valid cases checked afterwards in the same process show whether
    later in-domain calls are poisoned in some other way."""
    import numpy as np

    for args in junk:
        before = env_snapshot()
        try:
            with np.errstate(all="ignore"):
                fn(*args)
        except Exception:  # noqa: BLE001
            pass
        after = env_snapshot()
        # np.errstate restores the error state on exit; what the call did to it in between is read from a second run without the guard
        try:
            fn(*args)
        except Exception:  # noqa: BLE001
            pass
        after2 = env_snapshot()
        r.evals += 1
        for k in before:
            if after.get(k) != before[k] or after2.get(k) != before[k]:
                r.violation("%s:junk=%s:environment:%s" % (key, _short(repr(args))[:80], k),
                            "a call with out-of-domain arguments (whatever it returns or raises) leaves process-wide state (%s) as it found it" % k, before[k],
                            after2.get(k) if after2.get(k) != before[k] else after.get(k))
        if after2 != before:
            env_restore(before)


def cross_dirty(r, key, family, x1, x2, what=None):
    """Interaction probe for a family of functions that take the same kind of argument.  For every ordered pair (f, g), f != g, and for
    the argument held in a float64 ndarray and in a list:  buf <- x1;  f(buf);  buf[...] <- x2 (in place);  got = g(buf).  `got` must be
    what g returns for a fresh object holding x2 (computed first, in a state where no f has seen the buffer; the property's own oracle
    judges that value elsewhere).  State that one function leaves behind about an argument OBJECT (a memo keyed on identity, a remembered
    reference) and that another function later reads shows up here.  family: [(name, callable taking the argument)]."""
    import numpy as np

    want = {}
    for gname, g in family:
        want[gname] = _outcome(g, [np.array(x2, float)], {})
    n = 0
    for kind in ("ndarray", "list"):
        for fname, f in family:
            for gname, g in family:
                if fname == gname:
                    continue
                buf = np.array(x1, float) if kind == "ndarray" else np.asarray(x1, float).tolist()
                _outcome(f, [buf], {})
                new = np.asarray(x2, float)
                if kind == "ndarray":
                    buf[...] = new
                elif new.ndim == 1:
                    buf[:] = [float(v) for v in new]
                else:
                    for i_, row in enumerate(new.tolist()):
                        buf[i_][:] = row
                got = _outcome(g, [buf], {})
                r.evals += 1
                n += 1
                ref = want[gname]
                ok = ref[0] == got[0] and (ref[0] == "raise" or same_value(ref[1], got[1]))
                if not ok:
                    r.violation("%s:%s(buffer) after %s(buffer with other contents):%s" % (key, gname, fname, kind),
                                what or "a function answers for the CURRENT contents of an argument object, whatever other function saw that object before",
                                _short(ref[1]) if ref[0] == "ok" else repr(ref[1]), _short(got[1]) if got[0] == "ok" else repr(got[1]))
    return n
