"""Shared engine for C05 / C06: brute-force reflection oracle and the comparison of genhkl_all / genhkl_unique with it."""
from __future__ import annotations

import itertools
import math

import numpy as np

from . import alph
from . import oracles as O


def int_ops(g):
    """[(R int ndarray 3x3, t24 int ndarray 3)] - exact: translations as numerators over 24."""
    out = []
    for R, t in O.exact_ops(g):
        out.append((np.array(R, dtype=np.int64), np.array([int(x * 24) for x in t], dtype=np.int64)))
    return out


def lattice_points(cell, smax):
    """All hkl != 000 in the true index box of smax with their sin(theta)/lambda (from the harness metric)."""
    Gi = O.recip_metric(cell)
    N = O.index_bounds(cell, smax)
    ax = [np.arange(-n, n + 1, dtype=np.int64) for n in N]
    H = np.stack(np.meshgrid(*ax, indexing="ij"), axis=-1).reshape(-1, 3)
    H = H[np.any(H != 0, axis=1)]
    Hf = H.astype(float)
    s = np.sqrt(np.einsum("ij,jk,ik->i", Hf, Gi, Hf)) / 2
    return H, s


def extinct_mask(H, iops):
    """exact: some (R,t) with hR = h and h.t not an integer"""
    ext = np.zeros(len(H), dtype=bool)
    for R, t24 in iops:
        if not t24.any():
            continue
        fixed = np.all(H @ R == H, axis=1)
        ph = (H @ t24) % 24 != 0
        ext |= fixed & ph
    return ext


def shell_bounds(svals, target):
    """midpoint of the gap between neighbouring lattice-point values nearest to target (gap > 1e-5 relative)."""
    v = np.unique(np.round(svals, 12))
    v.sort()
    if target <= 0:
        return 0.0
    gaps = v[1:] - v[:-1]
    mids = 0.5 * (v[1:] + v[:-1])
    ok = gaps > 1e-5 * v[1:]
    mids = mids[ok]
    if len(mids) == 0:
        return float(target)
    j = int(np.argmin(np.abs(mids - target)))
    return float(mids[j])


def rhomb_to_hex(cell):
    a = cell[0]
    al = math.radians(cell[3])
    ah = 2 * a * math.sin(al / 2)
    ch = a * math.sqrt(3 * (1 + 2 * math.cos(al)))
    return [ah, ah, ch, 90.0, 90.0, 120.0]


def obverse(h):
    """rhombohedral (h,k,l) -> hexagonal (H,K,L), standard obverse setting"""
    return (h[0] - h[1], h[1] - h[2], h[0] + h[1] + h[2])


def as_int_rows(A):
    """rows of an (n x >=3) float array as integer tuples; second value False if any index is not integral"""
    A = np.asarray(A, float)
    if A.ndim != 2 or A.shape[0] == 0:
        return [], True
    R = np.rint(A[:, :3])
    ok = bool(np.all(R == A[:, :3]))
    return [tuple(int(x) for x in row) for row in R], ok


def point_group(g):
    rots = [tuple(tuple(int(x) for x in row) for row in r) for r in g.rot[:g.nuniq]]
    return rots


class Oracle(object):
    """Brute-force allowed reflections of one (setting, cell) up to smax_hint (computed once, filtered per shell)."""

    def __init__(self, g, cell, smax_hint):
        self.g = g
        self.cell = cell
        self.iops = int_ops(g)
        self.H, self.s = lattice_points(cell, smax_hint * 1.12)
        self.ext = extinct_mask(self.H, self.iops)
        self.pg = point_group(g)

    def bound(self, target):
        return shell_bounds(self.s, target)

    def allowed(self, smin, smax):
        m = (self.s > smin) & (self.s <= smax) & (~self.ext)
        return {tuple(int(x) for x in h): float(v) for h, v in zip(self.H[m], self.s[m])}

    def max_index(self, smin, smax):
        m = (self.s > smin) & (self.s <= smax)
        return int(np.max(np.abs(self.H[m]))) if m.any() else 0

    def family(self, h):
        return O.laue_orbit(self.pg, h)

    # vectorised Laue-orbit arithmetic (exact: int64)
    def _pgarr(self):
        if not hasattr(self, "_PG"):
            P = np.array(self.pg, dtype=np.int64)
            self._PG = np.concatenate([P, -P])
        return self._PG

    def images(self, H):
        """all Laue images of the rows of H: array (n, 2|P|, 3)"""
        H = np.asarray(H, dtype=np.int64).reshape(-1, 3)
        return np.einsum("ni,gij->ngj", H, self._pgarr())

    def family_keys(self, H):
        """one integer per row identifying its Laue family (the lexicographically smallest image, encoded)"""
        im = self.images(H)
        if im.shape[0] == 0:
            return np.zeros(0, dtype=np.int64)
        off, B = 1 << 15, 1 << 16
        code = ((im[..., 0] + off) * B + (im[..., 1] + off)) * B + (im[..., 2] + off)
        return code.min(axis=1)

    @staticmethod
    def decode(key):
        off, B = 1 << 15, 1 << 16
        key = int(key)
        return (key // (B * B) - off, (key // B) % B - off, key % B - off)


def call_lib(fn, *a, **k):
    try:
        return fn(*a, **k), None
    except Exception as ex:  # an exception on a valid input is a violation of the property
        import traceback

        return None, "%r\n%s" % (ex, traceback.format_exc()[-600:])
