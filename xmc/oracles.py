"""Reference models shared by several properties.  No xfab function is called in here, with one
exception: the *tables* of xfab.sglib are read (they are the object under test in C04 and the given
data in C05-C08, C15)."""
from __future__ import annotations

import itertools
import math
from fractions import Fraction as F

import numpy as np


# ---------------------------------------------------------------------------- metric


def metric(cell):
    a, b, c = cell[:3]
    ca, cb, cg = (math.cos(math.radians(x)) for x in cell[3:6])
    # exact zeros at right angles keep the reference free of 6e-17 cross terms
    ca, cb, cg = (0.0 if x == 90 else v for x, v in zip(cell[3:6], (ca, cb, cg)))
    return np.array([[a * a, a * b * cg, a * c * cb], [a * b * cg, b * b, b * c * ca], [a * c * cb, b * c * ca, c * c]], float)


def gram_det(cell):
    ca, cb, cg = (math.cos(math.radians(x)) for x in cell[3:6])
    return 1 - ca * ca - cb * cb - cg * cg + 2 * ca * cb * cg


def recip_metric(cell):
    return np.linalg.inv(metric(cell))


def stl(Gi, h):
    h = np.asarray(h, float)
    return math.sqrt(float(h @ Gi @ h)) / 2


def b_ref(cell, f=1.0):
    """Unique upper-triangular B with positive diagonal and B'B = f^2 G^-1."""
    L = np.linalg.cholesky(recip_metric(cell))
    return f * L.T


def a_ref(cell):
    return np.linalg.cholesky(metric(cell)).T


def cell_from_metric(G):
    a, b, c = (math.sqrt(G[i, i]) for i in range(3))
    cl = lambda x: max(-1.0, min(1.0, x))
    return [a, b, c, math.degrees(math.acos(cl(G[1, 2] / b / c))), math.degrees(math.acos(cl(G[0, 2] / a / c))),
            math.degrees(math.acos(cl(G[0, 1] / a / b)))]


def recip_cell(cell):
    return cell_from_metric(recip_metric(cell))


def cell_dev(c1, c2):
    c1 = np.asarray(c1, float)
    c2 = np.asarray(c2, float)
    sc = np.array([c2[0], c2[1], c2[2], 1.0, 1.0, 1.0])
    return float(np.max(np.abs(c1 - c2) / sc))


# ---------------------------------------------------------------------------- space groups (exact)


def frac(x):
    """Recover the rational behind a 6-digit decimal: nearest multiple of 1/24, must be within 2e-6."""
    r = F(round(float(x) * 24), 24)
    if abs(float(r) - float(x)) > 2e-6:
        raise ValueError("translation %r is not a multiple of 1/24 to 6 digits" % (x,))
    return r


def exact_ops(g):
    """[(R as tuple-of-tuples of int, t as tuple of Fraction mod 1)] from an sg object / sglib object."""
    ops = []
    for r, t in zip(g.rot, g.trans):
        R = tuple(tuple(int(round(float(x))) for x in row) for row in r)
        for row_f, row_i in zip(r, R):
            for xf, xi in zip(row_f, row_i):
                if float(xf) != xi:
                    raise ValueError("non-integer rotation entry %r" % (xf,))
        ops.append((R, tuple(frac(x) % 1 for x in t)))
    return ops


def compose(a, b):
    """(R1,t1) o (R2,t2): x -> R1 (R2 x + t2) + t1."""
    R1, t1 = a
    R2, t2 = b
    R = tuple(tuple(sum(R1[i][k] * R2[k][j] for k in range(3)) for j in range(3)) for i in range(3))
    t = tuple((sum(R1[i][k] * t2[k] for k in range(3)) + t1[i]) % 1 for i in range(3))
    return (R, t)


IDENT = ((1, 0, 0), (0, 1, 0), (0, 0, 1))


def neg(R):
    return tuple(tuple(-x for x in row) for row in R)


def matmul(A, B):
    return tuple(tuple(sum(A[i][k] * B[k][j] for k in range(3)) for j in range(3)) for i in range(3))


def transpose(A):
    return tuple(tuple(A[j][i] for j in range(3)) for i in range(3))


def det3(R):
    return (R[0][0] * (R[1][1] * R[2][2] - R[1][2] * R[2][1]) - R[0][1] * (R[1][0] * R[2][2] - R[1][2] * R[2][0])
            + R[0][2] * (R[1][0] * R[2][1] - R[1][1] * R[2][0]))


def row_times(h, R):
    """h R for a row vector h (the action on Miller indices)."""
    return tuple(sum(h[i] * R[i][j] for i in range(3)) for j in range(3))


def mat_vec(R, x):
    return tuple(sum(R[i][k] * x[k] for k in range(3)) for i in range(3))


def extinct(ops, h):
    """A reflection is extinct iff some operation (R,t) has hR = h and h.t not an integer."""
    for R, t in ops:
        if row_times(h, R) == tuple(h):
            ph = sum(h[i] * t[i] for i in range(3))
            if ph.denominator != 1:
                return True
    return False


def orbit(ops, p):
    """Distinct images R p + t modulo lattice translations (p: tuple of Fraction)."""
    S = {}
    for op in ops:
        R, t = op
        q = tuple((sum(R[i][k] * p[k] for k in range(3)) + t[i]) % 1 for i in range(3))
        S.setdefault(q, op)
    return S


def laue_orbit(pg, h):
    """Orbit of h under point-group rotations and inversion (pg: list of integer rotation tuples)."""
    out = set()
    for R in pg:
        q = row_times(h, R)
        out.add(q)
        out.add(tuple(-x for x in q))
    return frozenset(out)


def index_bounds(cell, smax):
    """True bound on |h_i| for reflections with sin(theta)/lambda <= smax: |h_i| <= 2 smax |a_i|."""
    return [int(math.floor(2 * smax * x + 1e-9)) for x in cell[:3]]


def brute_reflections(cell, ops, smin, smax):
    """Every hkl != 000 with smin < stl <= smax that is not extinct.  Returns dict hkl -> stl."""
    Gi = recip_metric(cell)
    N = index_bounds(cell, smax)
    out = {}
    for h in itertools.product(range(-N[0], N[0] + 1), range(-N[1], N[1] + 1), range(-N[2], N[2] + 1)):
        if h == (0, 0, 0):
            continue
        s = stl(Gi, h)
        if not (smin < s <= smax):
            continue
        if extinct(ops, h):
            continue
        out[h] = s
    return out


def shell_values(cell, smax_hint):
    """Sorted distinct stl values of all lattice points up to a bit beyond smax_hint."""
    Gi = recip_metric(cell)
    N = index_bounds(cell, smax_hint * 1.3)
    vals = []
    for h in itertools.product(range(-N[0], N[0] + 1), range(-N[1], N[1] + 1), range(-N[2], N[2] + 1)):
        if h == (0, 0, 0):
            continue
        vals.append(stl(Gi, h))
    vals.sort()
    out = []
    for v in vals:
        if not out or v - out[-1] > 1e-7 * v:
            out.append(v)
    return out


def safe_bound(vals, target):
    """Move `target` to the midpoint of the widest-enough gap between neighbouring lattice-point values
    around it, so that it is far (>= 1e-9 relative, in practice >= 1e-4) from any of them."""
    import bisect

    i = bisect.bisect_left(vals, target)
    best = None
    for j in range(max(1, i - 3), min(len(vals), i + 4)):
        lo, hi = vals[j - 1], vals[j]
        gap = hi - lo
        mid = 0.5 * (lo + hi)
        if gap > 1e-5 * hi:
            score = abs(mid - target)
            if best is None or score < best[0]:
                best = (score, mid)
    if best is None:
        return target
    return best[1]


# ---------------------------------------------------------------------------- form factors

ZTABLE = ("H HE LI BE B C N O F NE NA MG AL SI P S CL AR K CA SC TI V CR MN FE CO NI CU ZN GA GE AS SE BR KR RB SR Y ZR NB MO "
          "TC RU RH PD AG CD IN SN SB TE I XE CS BA LA CE PR ND PM SM EU GD TB DY HO ER TM YB LU HF TA W RE OS IR PT AU HG TL "
          "PB BI PO AT RN FR RA AC TH PA U NP PU AM CM BK CF ES FM MD NO LR RF DB SG BH HS MT DS RG CN NH FL MC LV TS OG").split()
Z = {el: i + 1 for i, el in enumerate(ZTABLE)}


def formfactor_ref(coef, s):
    return sum(coef[i] * math.exp(-coef[i + 4] * s * s) for i in range(4)) + coef[8]


# ---------------------------------------------------------------------------- names / structure factors


def setting_names(sgdic):
    """For each of the 237 settings the dictionary names that select it: {(no, cc): [names]}."""
    out = {}
    for name, kl in sgdic.items():
        no = int(kl[2:])
        cc = "rhombohedral" if (name[0] == "r" and name[-1] == "r") else "standard"
        out.setdefault((no, cc), []).append(name)
    return out


def dyadic(ops):
    """True iff every translation component is a multiple of 1/8 (then the 6-digit table values are exact)."""
    return all((t_i * 8).denominator == 1 for _, t in ops for t_i in t)


def p1_structure_factor(h, cell, g_rot, g_trans_float, ops_exact, atoms, disp, ffcoef):
    """Explicit P1 sum: every distinct image of every atom contributes
    occ x (f + f' + i f'') x DW x exp(2 pi i h.r).  Which images coincide is decided on exact rationals
    when the atom carries `pos_exact`, else by rounding at 1e-6; phases use the tabulated float translations."""
    Gi = recip_metric(cell)
    hv = np.asarray(h, float)
    s = math.sqrt(float(hv @ Gi @ hv)) / 2
    astar = np.sqrt(np.diag(Gi))
    tot = 0j
    for at in atoms:
        f = formfactor_ref(ffcoef[at["el"]], s)
        d = disp.get(at["el"]) if disp else None
        if d is not None:
            f = f + d[0] + 1j * d[1]
        seen = {}
        for j, (R, t) in enumerate(ops_exact):
            if at.get("pos_exact") is not None:
                p = at["pos_exact"]
                q = tuple((sum(R[i][k] * p[k] for k in range(3)) + t[i]) % 1 for i in range(3))
            else:
                rr = np.array(R) @ np.array(at["pos"], float) + np.array([float(x) for x in t])
                q = tuple(np.round(np.mod(rr + 5e-7, 1), 6))
            if q not in seen:
                seen[q] = j
        for q, j in seen.items():
            Rj = np.array(g_rot[j], float)
            r = Rj @ np.array(at["pos"], float) + np.array(g_trans_float[j], float)
            if at["adp_type"] == "Uiso":
                dw = math.exp(-8 * math.pi ** 2 * at["adp"] * s * s)
            elif at["adp_type"] == "Uani":
                u = at["adp"]
                U = np.array([[u[0], u[5], u[4]], [u[5], u[1], u[3]], [u[4], u[3], u[2]]], float)
                beta = 2 * math.pi ** 2 * np.outer(astar, astar) * U
                dw = math.exp(-float(hv @ (Rj @ beta @ Rj.T) @ hv))
            else:
                dw = 1.0
            tot += at["occ"] * f * dw * np.exp(2j * math.pi * float(hv @ r))
    return tot
