"""Reference models shared by several properties.  No xfab function is called in here, with one
exception: the *tables* of xfab.sglib are read (they are the object under test in C04 and the given
data in C05-C08, C15)."""
from __future__ import annotations

import itertools
import math
from fractions import Fraction as F

import numpy as np


# ---------------------------------------------------------------------------- metric


def metric(cell):
    a, b, c = cell[:3]
    ca, cb, cg = (math.cos(math.radians(x)) for x in cell[3:6])
    # exact zeros at right angles keep the reference free of 6e-17 cross terms
    ca, cb, cg = (0.0 if x == 90 else v for x, v in zip(cell[3:6], (ca, cb, cg)))
    return np.array([[a * a, a * b * cg, a * c * cb], [a * b * cg, b * b, b * c * ca], [a * c * cb, b * c * ca, c * c]], float)


def gram_det(cell):
    ca, cb, cg = (math.cos(math.radians(x)) for x in cell[3:6])
    return 1 - ca * ca - cb * cb - cg * cg + 2 * ca * cb * cg


def recip_metric(cell):
    return np.linalg.inv(metric(cell))


def stl(Gi, h):
    h = np.asarray(h, float)
    return math.sqrt(float(h @ Gi @ h)) / 2


def b_ref(cell, f=1.0):
    """Unique upper-triangular B with positive diagonal and B'B = f^2 G^-1."""
    L = np.linalg.cholesky(recip_metric(cell))
    return f * L.T


def a_ref(cell):
    return np.linalg.cholesky(metric(cell)).T


def cell_from_metric(G):
    a, b, c = (math.sqrt(G[i, i]) for i in range(3))
    cl = lambda x: max(-1.0, min(1.0, x))
    return [a, b, c, math.degrees(math.acos(cl(G[1, 2] / b / c))), math.degrees(math.acos(cl(G[0, 2] / a / c))),
            math.degrees(math.acos(cl(G[0, 1] / a / b)))]


def recip_cell(cell):
    return cell_from_metric(recip_metric(cell))


def cell_dev(c1, c2):
    c1 = np.asarray(c1, float)
    c2 = np.asarray(c2, float)
    sc = np.array([c2[0], c2[1], c2[2], 1.0, 1.0, 1.0])
    return float(np.max(np.abs(c1 - c2) / sc))


# ---------------------------------------------------------------------------- space groups (exact)


def frac(x):
    """Recover the rational behind a 6-digit decimal: nearest multiple of 1/24, must be within 2e-6."""
    r = F(round(float(x) * 24), 24)
    if abs(float(r) - float(x)) > 2e-6:
        raise ValueError("translation %r is not a multiple of 1/24 to 6 digits" % (x,))
    return r


def exact_ops(g):
    """[(R as tuple-of-tuples of int, t as tuple of Fraction mod 1)] from an sg object / sglib object."""
    ops = []
    for r, t in zip(g.rot, g.trans):
        R = tuple(tuple(int(round(float(x))) for x in row) for row in r)
        for row_f, row_i in zip(r, R):
            for xf, xi in zip(row_f, row_i):
                if float(xf) != xi:
                    raise ValueError("non-integer rotation entry %r" % (xf,))
        ops.append((R, tuple(frac(x) % 1 for x in t)))
    return ops


def compose(a, b):
    """(R1,t1) o (R2,t2): x -> R1 (R2 x + t2) + t1."""
    R1, t1 = a
    R2, t2 = b
    R = tuple(tuple(sum(R1[i][k] * R2[k][j] for k in range(3)) for j in range(3)) for i in range(3))
    t = tuple((sum(R1[i][k] * t2[k] for k in range(3)) + t1[i]) % 1 for i in range(3))
    return (R, t)


IDENT = ((1, 0, 0), (0, 1, 0), (0, 0, 1))


def closed_fast(ops):
    """exact closure test of a list of exact operations (vectorised int64 arithmetic on translations x 24): no duplicates and every
    product of two operations, translation reduced mod 1, is in the list"""
    n_ = len(ops)
    R = np.array([o[0] for o in ops], dtype=np.int64)
    T = np.array([[int(x * 24) for x in o[1]] for o in ops], dtype=np.int64)
    if any((x * 24).denominator != 1 for o in ops for x in o[1]):
        return False

    def keys(Rm, Tm):
        k = np.zeros(len(Rm), dtype=np.int64)
        for v in (Rm.reshape(len(Rm), 9) + 2).T:
            k = k * 5 + v
        for v in (Tm % 24).T:
            k = k * 24 + v
        return k

    own = keys(R, T)
    if len(np.unique(own)) != n_:
        return False
    RR = np.einsum("aij,bjk->abik", R, R).reshape(n_ * n_, 3, 3)
    TT = (np.einsum("aij,bj->abi", R, T) + T[:, None, :]).reshape(n_ * n_, 3)
    if np.abs(RR).max() > 2:
        return False
    return bool(np.isin(keys(RR, TT), own).all())


def neg(R):
    return tuple(tuple(-x for x in row) for row in R)


def matmul(A, B):
    return tuple(tuple(sum(A[i][k] * B[k][j] for k in range(3)) for j in range(3)) for i in range(3))


def transpose(A):
    return tuple(tuple(A[j][i] for j in range(3)) for i in range(3))


def det3(R):
    return (R[0][0] * (R[1][1] * R[2][2] - R[1][2] * R[2][1]) - R[0][1] * (R[1][0] * R[2][2] - R[1][2] * R[2][0])
            + R[0][2] * (R[1][0] * R[2][1] - R[1][1] * R[2][0]))


def row_times(h, R):
    """h R for a row vector h (the action on Miller indices)."""
    return tuple(sum(h[i] * R[i][j] for i in range(3)) for j in range(3))


def mat_vec(R, x):
    return tuple(sum(R[i][k] * x[k] for k in range(3)) for i in range(3))


def extinct(ops, h):
    """A reflection is extinct iff some operation (R,t) has hR = h and h.t not an integer."""
    for R, t in ops:
        if row_times(h, R) == tuple(h):
            ph = sum(h[i] * t[i] for i in range(3))
            if ph.denominator != 1:
                return True
    return False


def orbit(ops, p):
    """Distinct images R p + t modulo lattice translations (p: tuple of Fraction)."""
    S = {}
    for op in ops:
        R, t = op
        q = tuple((sum(R[i][k] * p[k] for k in range(3)) + t[i]) % 1 for i in range(3))
        S.setdefault(q, op)
    return S


def laue_orbit(pg, h):
    """Orbit of h under point-group rotations and inversion (pg: list of integer rotation tuples)."""
    out = set()
    for R in pg:
        q = row_times(h, R)
        out.add(q)
        out.add(tuple(-x for x in q))
    return frozenset(out)


def index_bounds(cell, smax):
    """True bound on |h_i| for reflections with sin(theta)/lambda <= smax: |h_i| <= 2 smax |a_i|."""
    return [int(math.floor(2 * smax * x + 1e-9)) for x in cell[:3]]


def brute_reflections(cell, ops, smin, smax):
    """Every hkl != 000 with smin < stl <= smax that is not extinct.  Returns dict hkl -> stl."""
    Gi = recip_metric(cell)
    N = index_bounds(cell, smax)
    out = {}
    for h in itertools.product(range(-N[0], N[0] + 1), range(-N[1], N[1] + 1), range(-N[2], N[2] + 1)):
        if h == (0, 0, 0):
            continue
        s = stl(Gi, h)
        if not (smin < s <= smax):
            continue
        if extinct(ops, h):
            continue
        out[h] = s
    return out


def shell_values(cell, smax_hint):
    """Sorted distinct stl values of all lattice points up to a bit beyond smax_hint."""
    Gi = recip_metric(cell)
    N = index_bounds(cell, smax_hint * 1.3)
    vals = []
    for h in itertools.product(range(-N[0], N[0] + 1), range(-N[1], N[1] + 1), range(-N[2], N[2] + 1)):
        if h == (0, 0, 0):
            continue
        vals.append(stl(Gi, h))
    vals.sort()
    out = []
    for v in vals:
        if not out or v - out[-1] > 1e-7 * v:
            out.append(v)
    return out


def safe_bound(vals, target):
    """Move `target` to the midpoint of the widest-enough gap between neighbouring lattice-point values
    around it, so that it is far (>= 1e-9 relative, in practice >= 1e-4) from any of them."""
    import bisect

    i = bisect.bisect_left(vals, target)
    best = None
    for j in range(max(1, i - 3), min(len(vals), i + 4)):
        lo, hi = vals[j - 1], vals[j]
        gap = hi - lo
        mid = 0.5 * (lo + hi)
        if gap > 1e-5 * hi:
            score = abs(mid - target)
            if best is None or score < best[0]:
                best = (score, mid)
    if best is None:
        return target
    return best[1]


# ---------------------------------------------------------------------------- form factors

ZTABLE = ("H HE LI BE B C N O F NE NA MG AL SI P S CL AR K CA SC TI V CR MN FE CO NI CU ZN GA GE AS SE BR KR RB SR Y ZR NB MO "
          "TC RU RH PD AG CD IN SN SB TE I XE CS BA LA CE PR ND PM SM EU GD TB DY HO ER TM YB LU HF TA W RE OS IR PT AU HG TL "
          "PB BI PO AT RN FR RA AC TH PA U NP PU AM CM BK CF ES FM MD NO LR RF DB SG BH HS MT DS RG CN NH FL MC LV TS OG").split()
Z = {el: i + 1 for i, el in enumerate(ZTABLE)}


def formfactor_ref(coef, s):
    return sum(coef[i] * math.exp(-coef[i + 4] * s * s) for i in range(4)) + coef[8]


# ---------------------------------------------------------------------------- names / structure factors


# Hermann-Mauguin short symbols of the 230 space groups in the order of International Tables A (1983-1995 naming: Cmca, Abm2 ...),
# written out here with a blank between the symbol elements.  This table is the harness's own, independent of xfab.sg.sgdic:
# it says which group a name denotes (the library's dictionary can only say which class it happens to map the name to).
HM_TEXT = """
P 1|P -1|P 2|P 21|C 2|P m|P c|C m|C c|P 2/m|P 21/m|C 2/m|P 2/c|P 21/c|C 2/c|
P 2 2 2|P 2 2 21|P 21 21 2|P 21 21 21|C 2 2 21|C 2 2 2|F 2 2 2|I 2 2 2|I 21 21 21|P m m 2|P m c 21|P c c 2|P m a 2|P c a 21|P n c 2|
P m n 21|P b a 2|P n a 21|P n n 2|C m m 2|C m c 21|C c c 2|A m m 2|A b m 2|A m a 2|A b a 2|F m m 2|F d d 2|I m m 2|I b a 2|I m a 2|
P m m m|P n n n|P c c m|P b a n|P m m a|P n n a|P m n a|P c c a|P b a m|P c c n|P b c m|P n n m|P m m n|P b c n|P b c a|P n m a|
C m c m|C m c a|C m m m|C c c m|C m m a|C c c a|F m m m|F d d d|I m m m|I b a m|I b c a|I m m a|
P 4|P 41|P 42|P 43|I 4|I 41|P -4|I -4|P 4/m|P 42/m|P 4/n|P 42/n|I 4/m|I 41/a|P 4 2 2|P 4 21 2|P 41 2 2|P 41 21 2|P 42 2 2|P 42 21 2|
P 43 2 2|P 43 21 2|I 4 2 2|I 41 2 2|P 4 m m|P 4 b m|P 42 c m|P 42 n m|P 4 c c|P 4 n c|P 42 m c|P 42 b c|I 4 m m|I 4 c m|I 41 m d|I 41 c d|
P -4 2 m|P -4 2 c|P -4 21 m|P -4 21 c|P -4 m 2|P -4 c 2|P -4 b 2|P -4 n 2|I -4 m 2|I -4 c 2|I -4 2 m|I -4 2 d|
P 4/m m m|P 4/m c c|P 4/n b m|P 4/n n c|P 4/m b m|P 4/m n c|P 4/n m m|P 4/n c c|P 42/m m c|P 42/m c m|P 42/n b c|P 42/n n m|
P 42/m b c|P 42/m n m|P 42/n m c|P 42/n c m|I 4/m m m|I 4/m c m|I 41/a m d|I 41/a c d|
P 3|P 31|P 32|R 3|P -3|R -3|P 3 1 2|P 3 2 1|P 31 1 2|P 31 2 1|P 32 1 2|P 32 2 1|R 3 2|P 3 m 1|P 3 1 m|P 3 c 1|P 3 1 c|R 3 m|R 3 c|
P -3 1 m|P -3 1 c|P -3 m 1|P -3 c 1|R -3 m|R -3 c|
P 6|P 61|P 65|P 62|P 64|P 63|P -6|P 6/m|P 63/m|P 6 2 2|P 61 2 2|P 65 2 2|P 62 2 2|P 64 2 2|P 63 2 2|P 6 m m|P 6 c c|P 63 c m|P 63 m c|
P -6 m 2|P -6 c 2|P -6 2 m|P -6 2 c|P 6/m m m|P 6/m c c|P 63/m c m|P 63/m m c|
P 2 3|F 2 3|I 2 3|P 21 3|I 21 3|P m -3|P n -3|F m -3|F d -3|I m -3|P a -3|I a -3|P 4 3 2|P 42 3 2|F 4 3 2|F 41 3 2|I 4 3 2|P 43 3 2|P 41 3 2|
I 41 3 2|P -4 3 m|F -4 3 m|I -4 3 m|P -4 3 n|F -4 3 c|I -4 3 d|P m -3 m|P n -3 n|P m -3 n|P n -3 m|F m -3 m|F m -3 c|F d -3 m|F d -3 c|
I m -3 m|I a -3 d
"""
HM = {i + 1: t.strip() for i, t in enumerate(HM_TEXT.replace("\n", "").split("|"))}
assert len(HM) == 230 and HM[230] == "I a -3 d" and HM[62] == "P n m a" and HM[167] == "R -3 c" and HM[194] == "P 63/m m c", len(HM)
RHOMB_NOS = (146, 148, 155, 160, 161, 166, 167)


def hm_compact(no):
    return "".join(HM[no].split()).lower()


def hm_pdb(no):
    """the symbol as a PDB CRYST1 record writes it: full monoclinic symbols with '1' place-holders (unique axis b), the rest as in HM"""
    if 3 <= no <= 15:
        lat, rest = HM[no].split()
        return "%s 1 %s 1" % (lat, rest)
    return HM[no]


def setting_names(sgdic=None):
    """For each of the 237 settings the names that denote it according to HM (independent of the library's dictionary):
    {(no, cc): [names]}; R groups: plain name and name+'h' = hexagonal axes (standard), name+'r' = rhombohedral axes."""
    out = {}
    for no in range(1, 231):
        c = hm_compact(no)
        if no in RHOMB_NOS:
            out[(no, "standard")] = [c, c + "h"]
            out[(no, "rhombohedral")] = [c + "r"]
        else:
            out[(no, "standard")] = [c]
    return out


def name_to_setting():
    """{accepted compact name: (no, cc)} from HM"""
    return {nm: k for k, v in setting_names().items() for nm in v}


def group_forms(no, cc):
    """Every way a caller can ask for the setting (no, cc) through the (sgno, sgname, cell_choice) triple the library's functions
    take: a list of (label, keyword dict).  Strings are built at run time (no source literal can be 'is'-compared)."""
    c = hm_compact(no)
    sp = HM[no]
    ccs = "".join(list(cc))
    if cc == "rhombohedral":
        return [("no+cc", {"sgno": no, "cell_choice": ccs}), ("name-r", {"sgname": c + "r"}), ("plain-name+cc", {"sgname": c, "cell_choice": ccs}),
                ("spaced-name-R", {"sgname": sp + " R"}), ("spaced-plain-name+cc", {"sgname": " " + sp.lower(), "cell_choice": ccs}),
                ("name-r+cc", {"sgname": c.upper() + "R", "cell_choice": ccs}), ("name-r+standard", {"sgname": c + "r", "cell_choice": "stand" + "ard"})]
    f = [("no", {"sgno": no}), ("no+standard", {"sgno": no, "cell_choice": ccs}), ("name", {"sgname": c}), ("spaced-name", {"sgname": sp}),
         ("name+standard", {"sgname": c.title(), "cell_choice": ccs})]
    if no in RHOMB_NOS:
        f += [("name-h", {"sgname": c + "h"}), ("spaced-name-H", {"sgname": sp + " H"}), ("name-h+standard", {"sgname": c + "h", "cell_choice": ccs})]
    return f


def dyadic(ops):
    """True iff every translation component is a multiple of 1/8 (then the 6-digit table values are exact)."""
    return all((t_i * 8).denominator == 1 for _, t in ops for t_i in t)


def p1_structure_factor(h, cell, g_rot, g_trans_float, ops_exact, atoms, disp, ffcoef):
    """Explicit P1 sum: every distinct image of every atom contributes
    occ x (f + f' + i f'') x DW x exp(2 pi i h.r).  Which images coincide is decided on exact rationals
    when the atom carries `pos_exact`, else by rounding at 1e-6; phases use the tabulated float translations."""
    Gi = recip_metric(cell)
    hv = np.asarray(h, float)
    s = math.sqrt(float(hv @ Gi @ hv)) / 2
    astar = np.sqrt(np.diag(Gi))
    tot = 0j
    for at in atoms:
        f = formfactor_ref(ffcoef[at["el"]], s)
        d = disp.get(at["el"]) if disp else None
        if d is not None:
            f = f + d[0] + 1j * d[1]
        seen = {}
        for j, (R, t) in enumerate(ops_exact):
            if at.get("pos_exact") is not None:
                p = at["pos_exact"]
                q = tuple((sum(R[i][k] * p[k] for k in range(3)) + t[i]) % 1 for i in range(3))
            else:
                rr = np.array(R) @ np.array(at["pos"], float) + np.array([float(x) for x in t])
                q = tuple(np.round(np.mod(rr + 5e-7, 1), 6))
            if q not in seen:
                seen[q] = j
        for q, j in seen.items():
            Rj = np.array(g_rot[j], float)
            r = Rj @ np.array(at["pos"], float) + np.array(g_trans_float[j], float)
            if at["adp_type"] == "Uiso":
                dw = math.exp(-8 * math.pi ** 2 * at["adp"] * s * s)
            elif at["adp_type"] == "Uani":
                u = at["adp"]
                U = np.array([[u[0], u[5], u[4]], [u[5], u[1], u[3]], [u[4], u[3], u[2]]], float)
                beta = 2 * math.pi ** 2 * np.outer(astar, astar) * U
                dw = math.exp(-float(hv @ (Rj @ beta @ Rj.T) @ hv))
            else:
                dw = 1.0
            tot += at["occ"] * f * dw * np.exp(2j * math.pi * float(hv @ r))
    return tot
