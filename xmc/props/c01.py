"""C01 - cell parameters, A/B matrices, volume and sin(theta)/lambda share one metric."""
from __future__ import annotations

import math

import numpy as np

from .. import alph
from .. import oracles as O
from ..core import CaseResult, twice, variants

PROP = "C01"
LEVEL = "exploration"
RULE = ("every cell of the cell alphabet (4 / 6 length triples x all angle triples from {45,60,...,135} / {30,40,...,150} (+89.9/90.1) with Gram "
        "determinant >= 0.02: all 27 cosine sign patterns, right angles, hexagonal and rhombohedral cases, axis ratios to 40) x every hkl "
        "of the box |h|<=2 / 3 x both modules, against the direct metric tensor written out in the harness; plus the conversion graph from "
        "every cell under a_to_cell.form_a_mat, b_to_cell.form_b_mat, cell_invert (reachable set must be {cell, reciprocal cell}). "
        "distinct_nontrivial = distinct (module, cell) with at least one non-right angle.")
ASSUMPTIONS = ["tolerance 1e-9 relative x 1/Gram determinant (the conditioning of the reciprocal quantities)", "numpy.linalg.inv / det on 3x3 matrices for the reference"]


def cases(tier, seed):
    cs = []
    for mod in ("tools", "laue"):
        for i, cell in enumerate(alph.cells(tier)):
            cs.append({"mod": mod, "cell": cell, "tier": tier, "index": i})
    return cs


def check_case(case):
    import xfab.laue
    import xfab.tools

    mname = case["mod"]
    mod = {"tools": xfab.tools, "laue": xfab.laue}[mname]
    f = 2 * math.pi if mname == "tools" else 1.0
    cell = case["cell"]
    r = CaseResult()
    G = O.metric(cell)
    Gi = np.linalg.inv(G)
    gd = O.gram_det(cell)
    tol = 1e-9 / gd
    key = "%s:cell=%s" % (mname, cell)
    A = np.asarray(twice(r, key + ":form_a_mat", mod.form_a_mat, cell), float)
    B = np.asarray(twice(r, key + ":form_b_mat", mod.form_b_mat, cell), float)
    for fname, arg in (("a_to_cell", A), ("b_to_cell", B), ("cell_invert", list(cell)), ("form_a_mat_inv", list(cell))):
        twice(r, key + ":" + fname, getattr(mod, fname), arg)
    for nm, M in (("A", A), ("B", B)):
        r.require(M[1, 0] == 0 and M[2, 0] == 0 and M[2, 1] == 0, key + ":%s-triangular" % nm, "%s is upper triangular (exact zeros below the diagonal)" % nm, None, M)
        r.require(bool(np.all(np.diag(M) > 0)), key + ":%s-diag" % nm, "%s has a positive diagonal" % nm, None, np.diag(M))
    r.check("A'A=G", float(np.max(np.abs(A.T @ A - G))) / float(np.max(np.abs(G))), tol, key + ":AtA", "A'A = direct metric tensor", G, A.T @ A)
    r.check("B'B=f^2G*", float(np.max(np.abs(B.T @ B / f / f - Gi))) / float(np.max(np.abs(Gi))), tol, key + ":BtB", "B'B = f^2 x reciprocal metric tensor", Gi, B.T @ B / f / f)
    vol = float(mod.cell_volume(cell))
    vref = math.sqrt(float(np.linalg.det(G)))
    r.check("volume", abs(vol - vref) / vref, tol, key + ":volume", "cell_volume = sqrt(det G)", vref, vol)
    r.check("detA", abs(float(np.linalg.det(A)) - vref) / vref, tol, key + ":detA", "det A = cell volume", vref, float(np.linalg.det(A)))
    Ai = np.asarray(mod.form_a_mat_inv(cell), float)
    r.check("Ainv", float(np.max(np.abs(Ai @ A - np.eye(3)))), tol, key + ":Ainv", "form_a_mat_inv . form_a_mat = I")
    # inverse maps
    rc = O.recip_cell(cell)
    for nm, got, want in (("a_to_cell", mod.a_to_cell(A), cell), ("b_to_cell", mod.b_to_cell(B), cell), ("cell_invert", mod.cell_invert(cell), rc),
                          ("cell_invert^2", mod.cell_invert(mod.cell_invert(cell)), cell)):
        r.check(nm, O.cell_dev(got, want), tol * 100, key + ":" + nm, "%s returns the six parameters" % nm, want, [float(x) for x in got])
    # a rotated A describes the same cell
    Q = alph.quat_to_mat((2, 1, 0, -1))
    r.check("a_to_cell(QA)", O.cell_dev(mod.a_to_cell(Q @ A), cell), tol * 100, key + ":a_to_cell-rot", "a_to_cell is invariant under rotation of A")
    r.check("b_to_cell(QB)", O.cell_dev(mod.b_to_cell(Q @ B), cell), tol * 100, key + ":b_to_cell-rot", "b_to_cell is invariant under rotation of B")
    # conversion graph: closure under the three conversions from this cell
    seen = []

    def canon(c):
        for i, s in enumerate(seen):
            if O.cell_dev(c, s) <= 1e-7 / gd:
                return i
        seen.append([float(x) for x in c])
        return len(seen) - 1

    frontier = [cell]
    canon(cell)
    trans = 0
    while frontier and len(seen) <= 6:
        c = frontier.pop(0)
        for step in (lambda c: mod.a_to_cell(mod.form_a_mat(c)), lambda c: mod.b_to_cell(mod.form_b_mat(c)), lambda c: mod.cell_invert(c)):
            n0 = len(seen)
            d = step(c)
            trans += 1
            canon(d)
            if len(seen) > n0:
                frontier.append([float(x) for x in d])
    expect = 1 if O.cell_dev(rc, cell) <= 1e-7 / gd else 2
    r.require(len(seen) == expect and (expect == 1 or O.cell_dev(seen[1], rc) <= 1e-7 / gd), key + ":graph", "conversion graph closes on {cell, reciprocal cell}",
              expect, seen)
    r.states = len(seen)
    r.transitions = trans
    # sin(theta)/lambda
    H = alph.hkl_box(2 if case["tier"] == "quick" else 3)
    worst = 0.0
    worstB = 0.0
    for h in H:
        hv = np.array(h, float)
        ref = math.sqrt(float(hv @ Gi @ hv)) / 2
        s = float(mod.sintl(cell, h))
        d1 = abs(s - ref) / ref
        d2 = abs(float(np.linalg.norm(B @ hv)) / (2 * f) - s) / ref
        r.evals += 2
        if not d1 <= tol:
            r.violation(key + ":sintl:h=%s" % (h,), "sintl = sqrt(h'G*h)/2", ref, s, tol, d1)
        if not d2 <= tol:
            r.violation(key + ":sintlB:h=%s" % (h,), "sintl = |B.hkl|/(2f)", float(np.linalg.norm(B @ hv)) / (2 * f), s, tol, d2)
        worst = max(worst, d1)
        worstB = max(worstB, d2)
    r.upd("sintl x Gram", worst * gd)
    r.upd("sintl-vs-B x Gram", worstB * gd)
    # history / environment: the cell is a buffer the caller reuses (first a nearby cell, then this one), as list and as ndarray;
    # numpy's global print options are switched to 2 decimals meanwhile (a cache keyed on str(array) would collide)
    near = [cell[0] * (1 + 3e-4), cell[1], cell[2] * (1 - 2e-4), cell[3], cell[4] + (2e-4 if cell[4] < 170 else -2e-4), cell[5]]
    old = np.get_printoptions()
    np.set_printoptions(precision=2, suppress=True)
    try:
        h = (1, 2, -3)
        hv = np.array(h, float)
        ref = math.sqrt(float(hv @ Gi @ hv)) / 2
        for kind, out in alph.dirty_call(lambda c_, h_: mod.sintl(c_, h_), (near, h), (cell, h)):
            r.check("sintl reused cell", abs(float(out) - ref) / ref, tol, key + ":sintl:reused-%s" % kind, "sintl uses the CURRENT contents of a cell %s the caller reuses" % kind, ref, float(out))
        for kind, out in alph.dirty_call(lambda c_: mod.form_b_mat(c_), (near,), (cell,)):
            out = np.asarray(out, float)
            r.check("B reused cell", float(np.max(np.abs(out.T @ out / f / f - Gi))) / float(np.max(np.abs(Gi))), tol, key + ":form_b_mat:reused-%s" % kind,
                    "form_b_mat uses the CURRENT contents of a cell %s the caller reuses" % kind)
        for kind, out in alph.dirty_call(lambda c_: mod.form_a_mat(c_), (near,), (cell,)):
            out = np.asarray(out, float)
            r.check("A reused cell", float(np.max(np.abs(out.T @ out - G))) / float(np.max(np.abs(G))), tol, key + ":form_a_mat:reused-%s" % kind,
                    "form_a_mat uses the CURRENT contents of a cell %s the caller reuses" % kind)
        # two DIFFERENT ndarray cells that print alike
        c1, c2 = np.array(near, float), np.array(cell, float)
        mod.sintl(c1, h)
        out = mod.sintl(c2, h)
        r.check("sintl look-alike arrays", abs(float(out) - ref) / ref, tol, key + ":sintl:look-alike-ndarray", "sintl of an ndarray cell after another ndarray cell that prints the same", ref, float(out))
    finally:
        np.set_printoptions(**old)
    # argument kinds x call forms: the cell as tuple / ndarray / strided view / float32 and - when its six parameters are whole
    # numbers, the way users type them - as ints and integer arrays; positionally and by keyword.  Every cell with whole-number
    # parameters, and every fourth other cell.
    whole = all(float(x).is_integer() for x in cell)
    if whole or case.get("index", 0) % 4 == 0:
        ts = 2e-5 / gd
        for fname in ("form_a_mat", "form_b_mat", "cell_volume", "cell_invert", "form_a_mat_inv"):
            variants(r, key + ":" + fname, getattr(mod, fname), [cell], 0, tol, ts)
        for h in ((1, 2, -3), (0, 0, 2)):
            variants(r, key + ":sintl:h=%s" % (h,), mod.sintl, [cell, list(h)], 0, tol, ts)
            variants(r, key + ":sintl:h=%s" % (h,), mod.sintl, [cell, list(h)], 1, tol, ts)
        variants(r, key + ":a_to_cell", mod.a_to_cell, [A], 0, tol * 100, 2e-4 / gd, dev=lambda a, b: O.cell_dev(b, a))
        variants(r, key + ":b_to_cell", mod.b_to_cell, [B], 0, tol * 100, 2e-4 / gd, dev=lambda a, b: O.cell_dev(b, a))
    if any(x != 90 for x in cell[3:]):
        r.nontrivial.add("%s:%s" % (mname, cell))
    return r


def alphabet(tier):
    return {"cells": len(alph.cells(tier)), "hkl": len(alph.hkl_box(2 if tier == "quick" else 3))}


def samples(cases):
    return [cases[0], cases[len(cases) // 3], cases[-1]]
