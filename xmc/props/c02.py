"""C02 - orientation U, metric B and UBI convert into each other without loss."""
from __future__ import annotations

import itertools
import math

import numpy as np

from .. import alph
from .. import oracles as O
from ..core import CaseResult, cross_dirty, twice, variants

PROP = "C02"
LEVEL = "exploration"
SECOND_SCHEDULE = 4  # stride of the reverse-order history pass (0 = off, 1 = every case)
RULE = ("rotations (integer-quaternion lattice N=2 / N=3 plus Euler-built gimbal-band rotations) x cells (coarse cell alphabet) x 7 hkl x both "
        "modules: u_to_ubi, ubi_to_u, ubi_to_cell, ubi_to_u_b, ubi_to_rod against UBI = f inv(U.B) with B from the harness metric; the "
        "orientation graph U -> UBI -> U, U -> U.B -> QR -> U, U -> UBI -> Rodrigues -> U (every state must stay at U). QR split on every "
        "3x3 matrix with entries in {-1,0,1} (quick) / {-1,0,1,2} (thorough) and det > 0, also scaled by diag(1,1e-2,1e2) and 1e+-3, kept "
        "iff the condition number is < 1e6, against the unique Cholesky-based split. distinct_nontrivial = distinct (module, rotation, cell) "
        "with U != I plus distinct QR inputs.")
ASSUMPTIONS = ["B reference = transposed Cholesky factor of the reciprocal metric (unique upper triangular, positive diagonal)",
               "QR tolerance 1e-12 x condition number: a backward-stable split is accurate to ~eps x cond, whereas a normal-equations split "
               "(eps x cond^2) must fail for cond > 1e4; the reference U, B are computed from a QR in extended care (Householder via numpy, sign-fixed), "
               "not from M'M", "tolerance 1e-9 / Gram (cells)"]

HKLS = [(1, 0, 0), (0, 1, 0), (0, 0, 1), (1, 1, 1), (-2, 1, 3), (3, -3, 1), (1, 2, -3)]


def rot_list(tier):
    Q = alph.quat_rots(2 if tier == "quick" else 3)
    R = [(("quat",) + q, M) for q, M in Q]
    for d in (0.0, 1e-9, 1e-7, 1e-4):
        for p1, p2 in ((0.3, 1.1), (4.0, 6.0)):
            R.append((("euler", p1, d, p2), alph.euler_ref(p1, d, p2)))
            R.append((("euler", p1, math.pi - d, p2), alph.euler_ref(p1, math.pi - d, p2)))
    return R


def qr_inputs(tier):
    vals = (-1, 0, 1) if tier == "quick" else (-1, 0, 1, 2)
    out = []
    for e in itertools.product(vals, repeat=9):
        M = np.array(e, float).reshape(3, 3)
        if np.linalg.det(M) > 0.5:
            out.append(M)
    return out


def illcond():
    """generic (non-integer) matrices with condition numbers 1e2 .. 9e5: R1 . diag(1, s, s^2) . R2"""
    Q = [M for _, M in alph.quat_rots(1)]
    out = []
    for s_ in (0.3, 0.1, 3e-2, 1e-2, 3e-3, 1.1e-3):
        for i, j in ((5, 11), (17, 3), (29, 31), (8, 22), (13, 38)):
            out.append(Q[i] @ np.diag([1.0, s_, s_ * s_]) @ Q[j] * (1 if np.linalg.det(Q[i] @ Q[j]) > 0 else -1))
    return [M for M in out if np.linalg.det(M) > 0]


def cases(tier, seed):
    cs = []
    cells = alph.coarse_cells(tier)
    R = rot_list(tier)
    for mod in ("tools", "laue"):
        for lo in range(0, len(R), 20):
            cs.append({"kind": "ubi", "mod": mod, "lo": lo, "hi": min(len(R), lo + 20), "tier": tier})
        n = len(qr_inputs(tier))
        blk = 400 if tier == "quick" else 4000
        for lo in range(0, n, blk):
            cs.append({"kind": "qr", "mod": mod, "lo": lo, "hi": min(n, lo + blk), "tier": tier})
        cs.append({"kind": "qr", "mod": mod, "lo": -1, "hi": -1, "tier": tier})
    return cs


def qr_ref(M):
    """unique U (proper rotation), B (upper triangular, positive diagonal) with U.B = M, det M > 0.
    Modified Gram-Schmidt with re-orthogonalisation (accurate to eps x cond; M'M would square the condition number)."""
    M = np.asarray(M, float)
    Q = np.zeros((3, 3))
    R = np.zeros((3, 3))
    for j in range(3):
        v = M[:, j].copy()
        for _ in range(2):
            for i in range(j):
                c = float(Q[:, i] @ v)
                R[i, j] += c
                v -= c * Q[:, i]
        R[j, j] = float(np.linalg.norm(v))
        Q[:, j] = v / R[j, j]
    return Q, R


def check_case(case):
    import xfab.laue
    import xfab.tools

    mname = case["mod"]
    mod = {"tools": xfab.tools, "laue": xfab.laue}[mname]
    f = 2 * math.pi if mname == "tools" else 1.0
    r = CaseResult()
    tier = case["tier"]
    if case["kind"] == "ubi":
        cells = alph.coarse_cells(tier)
        for ri, (tag, U) in enumerate(rot_list(tier)[case["lo"]:case["hi"]], case["lo"]):
            for cell in cells:
                key = "%s:U=%s:cell=%s" % (mname, tag, cell)
                tol = 1e-9 / O.gram_det(cell)
                B = O.b_ref(cell, f)
                ubi_ref = f * np.linalg.inv(U @ B)
                un = float(np.max(np.abs(ubi_ref)))
                ubi = np.asarray(twice(r, key + ":u_to_ubi", mod.u_to_ubi, U, cell), float)
                r.check("u_to_ubi", float(np.max(np.abs(ubi - ubi_ref))) / un, tol, key + ":u_to_ubi", "u_to_ubi = f inv(U.B)", ubi_ref, ubi)
                for src, X in (("ref", ubi_ref), ("chain", ubi)):
                    U2 = np.asarray(mod.ubi_to_u(X), float)
                    r.check("ubi_to_u", float(np.max(np.abs(U2 - U))), tol, key + ":ubi_to_u-" + src, "ubi_to_u returns the same U", U, U2)
                    c2 = mod.ubi_to_cell(X)
                    r.check("ubi_to_cell", O.cell_dev(c2, cell), tol * 100, key + ":ubi_to_cell-" + src, "ubi_to_cell returns the same cell", cell, [float(x) for x in c2])
                    U3, B3 = mod.ubi_to_u_b(X)
                    r.check("ubi_to_u_b.U", float(np.max(np.abs(np.asarray(U3) - U))), tol, key + ":ubi_to_u_b.U-" + src, "ubi_to_u_b returns the same U", U, U3)
                    r.check("ubi_to_u_b.B", float(np.max(np.abs(np.asarray(B3) - B))) / float(np.max(np.abs(B))), tol, key + ":ubi_to_u_b.B-" + src,
                            "ubi_to_u_b returns the same B", B, B3)
                # rows of UBI are the real-space lattice vectors: UBI.(U.B.hkl) = f hkl
                for h in HKLS:
                    g = U @ B @ np.array(h, float)
                    r.check("ubi.g", float(np.max(np.abs(ubi @ g / f - np.array(h, float)))), tol * 10, key + ":hkl=%s" % (h,), "UBI.(U.B.hkl) = f.hkl", h, ubi @ g / f)
                # U -> U.B -> QR -> (U,B)
                U4, B4 = twice(r, key + ":ub_to_u_b", mod.ub_to_u_b, U @ B)
                r.check("ub_to_u_b.U", float(np.max(np.abs(np.asarray(U4) - U))), tol, key + ":ub_to_u_b.U", "ub_to_u_b(U.B) returns U", U, U4)
                r.check("ub_to_u_b.B", float(np.max(np.abs(np.asarray(B4) - B))) / float(np.max(np.abs(B))), tol, key + ":ub_to_u_b.B", "ub_to_u_b(U.B) returns B", B, B4)
                # U -> UBI -> Rodrigues -> U
                if abs(1 + np.trace(U)) > 1e-3:
                    rv = np.asarray(mod.ubi_to_rod(ubi), float)
                    rv0 = np.asarray(mod.u_to_rod(U), float)
                    r.check("ubi_to_rod", float(np.max(np.abs(rv - rv0))) / (1 + float(np.max(np.abs(rv0)))), tol * max(1.0, 4 / abs(1 + np.trace(U))), key + ":ubi_to_rod",
                            "ubi_to_rod = u_to_rod(U)", rv0, rv)
                    U5 = np.asarray(mod.rod_to_u(rv), float)
                    r.check("rod-closure", float(np.max(np.abs(U5 - U))), 1e-6, key + ":rod-closure", "U -> UBI -> Rodrigues -> U closes", U, U5)
                r.states += 4
                r.transitions += 9
                # argument kinds x call forms (one cell per rotation, cycling through the cells): U, cell, UBI and U.B as list / tuple /
                # views / Fortran order / float32 and, when whole numbers, ints; positionally and by keyword
                if cells.index(cell) == ri % len(cells):
                    ts = 2e-5 / O.gram_det(cell)
                    rel = lambda a, b: float(np.max(np.abs(np.asarray(a, float) - np.asarray(b, float)))) / float(np.max(np.abs(np.asarray(a, float))))
                    variants(r, key + ":u_to_ubi", mod.u_to_ubi, [U, cell], 0, tol, ts, dev=rel)
                    variants(r, key + ":u_to_ubi", mod.u_to_ubi, [U, cell], 1, tol, ts, dev=rel)
                    variants(r, key + ":ubi_to_u", mod.ubi_to_u, [ubi_ref], 0, tol, ts)
                    variants(r, key + ":ubi_to_cell", mod.ubi_to_cell, [ubi_ref], 0, tol * 100, ts * 10, dev=lambda a, b: O.cell_dev(b, a))
                    pair = lambda a, b: max(float(np.max(np.abs(np.asarray(a[0], float) - np.asarray(b[0], float)))), rel(a[1], b[1]))
                    variants(r, key + ":ubi_to_u_b", mod.ubi_to_u_b, [ubi_ref], 0, tol, ts, dev=pair)
                    variants(r, key + ":ub_to_u_b", mod.ub_to_u_b, [U @ B], 0, tol, ts, dev=pair)
                    # interaction: one UBI buffer seen by one function with other contents, then by another function with these contents
                    other = f * np.linalg.inv(alph.quat_to_mat((1, 2, -1, 3)) @ O.b_ref([4.4, 3.3, 6.1, 95.0, 80.0, 101.0], f))
                    fam = [("ubi_to_cell", mod.ubi_to_cell), ("ubi_to_u", mod.ubi_to_u), ("ubi_to_u_b", mod.ubi_to_u_b), ("ubi_to_u_and_eps", lambda b_: mod.ubi_to_u_and_eps(b_, cell))]
                    if abs(1 + np.trace(U)) > 1e-3:
                        fam.append(("ubi_to_rod", mod.ubi_to_rod))
                    cross_dirty(r, key + ":ubi-family", fam, other, ubi_ref)
                    # overall scale of the UBI (the same grain described in nm, um, mm, m ... or in units of 1e-10 A): U does not change, B scales
                    for sc_ in (1e-10, 1e-7, 1e-4, 1e-1, 1e4, 1e8):
                        try:
                            Us = np.asarray(mod.ubi_to_u(ubi_ref * sc_), float)
                        except Exception as ex:
                            r.evals += 1
                            r.violation(key + ":ubi_to_u:scale=%g:exception" % sc_, "ubi_to_u raised for a valid right-handed UBI given in other length units", None, repr(ex))
                            continue
                        r.check("ubi_to_u scaled", float(np.max(np.abs(Us - U))), tol, key + ":ubi_to_u:scale=%g" % sc_, "ubi_to_u of the UBI in other length units returns the same U", U, Us)
                        U6, B6 = mod.ubi_to_u_b(ubi_ref * sc_)
                        r.check("ubi_to_u_b scaled", max(float(np.max(np.abs(np.asarray(U6) - U))), float(np.max(np.abs(np.asarray(B6) * sc_ - B))) / float(np.max(np.abs(B)))), tol,
                                key + ":ubi_to_u_b:scale=%g" % sc_, "ubi_to_u_b of the UBI in other length units: same U, B scaled inversely")
                if not np.allclose(U, np.eye(3)):
                    r.nontrivial.add("%s:%s:%s" % (mname, tag, cell))
    else:
        M0 = qr_inputs(tier)[case["lo"]:case["hi"]] if case["lo"] >= 0 else illcond()
        scalings = [np.eye(3), np.diag([1.0, 1e-2, 1e2]), 1e3 * np.eye(3), 1e-3 * np.eye(3)] if case["lo"] >= 0 else [np.eye(3), 1e3 * np.eye(3)]
        for Mi in M0:
            for si, S in enumerate(scalings):
                M = (Mi @ S) * (f if False else 1.0)
                cond = np.linalg.cond(M)
                if not cond < 1e6:
                    continue
                key = "%s:qr:M=%s:s%d" % (mname, (Mi.astype(int) if case["lo"] >= 0 else np.round(Mi, 6)).reshape(-1).tolist(), si)
                tol = 1e-12 * max(1.0, cond)
                try:
                    U, B = mod.ub_to_u_b(M)
                except Exception as ex:
                    r.evals += 1
                    r.violation(key + ":exception", "ub_to_u_b raised on a matrix with det > 0", None, repr(ex))
                    continue
                U = np.asarray(U, float)
                B = np.asarray(B, float)
                Ur, Br = qr_ref(M)
                bn = float(np.max(np.abs(Br)))
                r.check("qr.orth", float(np.max(np.abs(U.T @ U - np.eye(3)))), 1e-12 * max(1.0, cond), key + ":orth", "U'U = I")
                r.check("qr.det", abs(float(np.linalg.det(U)) - 1), 1e-12 * max(1.0, cond), key + ":det", "det U = +1")
                r.require(B[1, 0] == 0 and B[2, 0] == 0 and B[2, 1] == 0 and bool(np.all(np.diag(B) > 0)), key + ":tri", "B upper triangular, positive diagonal", None, B)
                r.check("qr.product", float(np.max(np.abs(U @ B - M))) / float(np.max(np.abs(M))), 1e-12 * max(1.0, cond), key + ":product", "U.B = UB")
                r.check("qr.U", float(np.max(np.abs(U - Ur))), tol, key + ":U", "U equals the unique reference rotation", Ur, U)
                r.check("qr.B", float(np.max(np.abs(B - Br))) / bn, tol, key + ":B", "B equals the unique reference", Br, B)
                # the same split asked through the UBI: ubi_to_u_b(f inv(M)) must be as accurate as the QR of M itself (a route through the
                # metric tensor and cell angles loses cond^2 .. cond^3 x eps)
                try:
                    U7, B7 = mod.ubi_to_u_b(f * np.linalg.inv(M))
                    d7 = max(float(np.max(np.abs(np.asarray(U7, float) - Ur))), float(np.max(np.abs(np.asarray(B7, float) - Br))) / bn)
                except Exception as ex:
                    d7 = float("inf")
                r.check("qr.via-ubi", d7, 1e-11 * max(1.0, cond), key + ":via-ubi", "ubi_to_u_b(f inv(UB)) equals the unique split of UB", None, d7)
                r.nontrivial.add(key)
                r.states += 1
                # argument kinds: the same (exactly representable) matrix as nested list, int array, float32 array, Fortran-ordered array
                if si == 0 and case["lo"] >= 0:
                    kinds = [("list", M.tolist()), ("int64", M.astype(np.int64)), ("float32", M.astype(np.float32)), ("fortran", np.asfortranarray(M))]
                    for kn, arg in kinds:
                        try:
                            U2, B2 = mod.ub_to_u_b(arg)
                            d = max(float(np.max(np.abs(np.asarray(U2, float) - Ur))), float(np.max(np.abs(np.asarray(B2, float) - Br))) / bn)
                        except Exception as ex:
                            d = float("inf")
                        r.check("qr.argkind", d, tol, key + ":arg=" + kn, "ub_to_u_b gives the same split for a %s argument" % kn)
        r.transitions = r.states
    return r


def alphabet(tier):
    return {"rotations": len(rot_list(tier)), "cells": len(alph.coarse_cells(tier)), "qr_matrices": len(qr_inputs(tier)), "qr_scalings": 4}


def samples(cases):
    return [cases[0], cases[len(cases) // 2 - 1], cases[-1]]
