"""C03 - every orientation parametrisation yields a proper rotation and inverts exactly."""
from __future__ import annotations

import itertools
import math

import numpy as np

from .. import alph
from ..alph import Rx, Ry, Rz, euler_ref
from ..core import CaseResult, variants

PROP = "C03"
LEVEL = "exploration"
RULE = ("constructors on complete angle grids (multiples of pi/12 from -2pi to 4pi plus 1e-9, -1e3, 12345.678 for one-angle "
        "constructors; multiples of pi/6 (quick) / pi/12 (thorough) for three-angle ones; Euler grid {k pi/12}^3 on [0,2pi] plus the "
        "gimbal band PHI = d, pi-d for 15 values of d in [0,1e-3]; Rodrigues vectors = primitive integer directions x |r| in "
        "{0,1e-3,0.1,1,10,1e3}) against elementary rotations multiplied in the harness; inverses u_to_euler / u_to_rod on the "
        "integer-quaternion rotation lattice, the Euler grid, the full gimbal band (both ends x 16 x 16 phi values) and axis-aligned "
        "matrices, with chained conversions U -> Euler -> U -> Rodrigues -> U -> Euler -> U (conversion graph; every state must stay "
        "at U). distinct_nontrivial = distinct (function, argument) pairs that are not the identity rotation.")
ASSUMPTIONS = ["Rodrigues convention: U is the transpose of the active right-handed rotation about r by 2 atan|r| (the library's passive sense)",
               "rebuild tolerance 1e-6 as stated by the property; constructor tolerance 1e-12", "rotation angles within 1e-6 of 180 degrees are excluded for u_to_rod"]

EXTRA = [1e-9, -1e3, 12345.678, 1e5, -3e8, 1e12]  # numpy reduces large arguments exactly: a correct constructor stays at 1e-16 for them
LADDER = [0.0, 1e-9, -1e-7, 1e-6, 6e-5, -4e-5, 1e-4, -1e-3, 1e-2, 0.3, -2.0]


def ang1():
    return [k * math.pi / 12 for k in range(-24, 49)] + EXTRA


def ang3(tier):
    if tier == "quick":
        return [k * math.pi / 6 for k in range(-6, 13)] + [0.1]
    return [k * math.pi / 12 for k in range(-12, 25)] + [0.1, -1e3]


def phis():
    return [k * math.pi / 6 for k in range(13)] + [0.1, 1e-9, 2 * math.pi - 1e-9]


def rod_active(r):
    r = np.asarray(r, float)
    n = float(np.linalg.norm(r))
    if n == 0:
        return np.eye(3)
    ax = r / n
    th = 2 * math.atan(n)
    K = np.array([[0, -ax[2], ax[1]], [ax[2], 0, -ax[0]], [-ax[1], ax[0], 0]])
    return np.eye(3) + math.sin(th) * K + (1 - math.cos(th)) * (K @ K)


def rod_from_u(U):
    """Reference Rodrigues vector of U (passive sense): active A = U', r = axis tan(theta/2) from A's antisymmetric part."""
    A = U.T
    v = np.array([A[2, 1] - A[1, 2], A[0, 2] - A[2, 0], A[1, 0] - A[0, 1]])  # 2 sin(theta) axis
    return v / (1 + np.trace(A))  # tan(theta/2) = sin/(1+cos), 1+tr = 2(1+cos)


def cases(tier, seed):
    cs = []
    for mod in ("tools", "laue"):
        cs.append({"kind": "ctor1", "mod": mod, "tier": tier})
        a3 = ang3(tier)
        for i, a in enumerate(a3):
            cs.append({"kind": "ctor3", "mod": mod, "a": a, "tier": tier})
        g = [k * math.pi / 12 for k in range(25)]
        for p1 in g:
            cs.append({"kind": "euler", "mod": mod, "phi1": p1, "tier": tier})
        for end in (0, 1):
            for d in alph.GIMBAL_BAND:
                cs.append({"kind": "band", "mod": mod, "end": end, "d": d, "tier": tier})
        cs.append({"kind": "rod", "mod": mod, "tier": tier})
        cs.append({"kind": "checks-off", "mod": mod, "tier": tier})
        cs.append({"kind": "ladder", "mod": mod, "tier": tier})
        cs.append({"kind": "forms", "mod": mod, "tier": tier})
        N = 2 if tier == "quick" else 3
        nq = len(alph.quat_rots(N))
        for lo in range(0, nq, 40):
            cs.append({"kind": "quat", "mod": mod, "N": N, "lo": lo, "hi": min(nq, lo + 40), "tier": tier})
    return cs


def proper(r, M, key, tol=1e-12):
    M = np.asarray(M, float)
    ok = M.shape == (3, 3) and bool(np.all(np.isfinite(M)))
    if ok:
        r.check("orthonormal", float(np.max(np.abs(M.T @ M - np.eye(3)))), tol, key + ":orth", "orthonormal")
        r.check("det", abs(float(np.linalg.det(M)) - 1), tol, key + ":det", "determinant +1")
    else:
        r.violation(key + ":shape", "3x3 finite matrix", None, repr(M))
    return ok


def inv_euler(r, mod, U, key):
    """u_to_euler on U: range + rebuild.  Returns rebuilt matrix or None."""
    try:
        e = mod.u_to_euler(U)
    except Exception as ex:
        r.evals += 1
        r.violation(key + ":u_to_euler", "u_to_euler raised on a proper rotation", None, repr(ex))
        return None
    e = [float(x) for x in e]
    ok = 0 <= e[0] <= 2 * math.pi and 0 <= e[1] <= math.pi and 0 <= e[2] <= 2 * math.pi
    r.require(ok, key + ":range", "Euler angles in [0,2pi]x[0,pi]x[0,2pi]", None, e)
    U2 = euler_ref(*e)
    r.check("euler-rebuild", float(np.max(np.abs(U2 - U))), 1e-6, key + ":rebuild", "Rz(phi1)Rx(PHI)Rz(phi2) of the returned angles rebuilds U", U, {"angles": e, "rebuilt": U2})
    return U2


def inv_rod(r, mod, U, key):
    ang = math.degrees(math.acos(max(-1.0, min(1.0, (np.trace(U) - 1) / 2))))
    tr1 = 1 + np.trace(U)
    # excluded: rotation angle within 1e-6 deg of 180 (1+trace ~ theta_dev^2/2)
    if abs(ang - 180) < 1e-3:
        return None
    try:
        rv = np.asarray(mod.u_to_rod(U), float)
    except Exception as ex:
        r.evals += 1
        r.violation(key + ":u_to_rod", "u_to_rod raised away from 180 degrees", None, repr(ex))
        return None
    r.require(bool(np.all(np.isfinite(rv))), key + ":rod-finite", "finite Rodrigues vector", None, rv)
    ref = rod_from_u(U)
    r.check("rod-ref", float(np.max(np.abs(rv - ref))) / (1 + float(np.max(np.abs(ref)))), 1e-9 * max(1.0, 4.0 / abs(tr1)), key + ":rod-ref", "u_to_rod = axis*tan(angle/2) (passive sense)", ref, rv)
    U2 = np.asarray(mod.rod_to_u(rv), float)
    r.check("rod-rebuild", float(np.max(np.abs(U2 - U))), 1e-6, key + ":rod-rebuild", "rod_to_u(u_to_rod(U)) rebuilds U", U, U2)
    return U2


def chain(r, mod, U, key):
    """conversion graph walk: U -> Euler -> U' -> Rodrigues -> U'' -> Euler -> U''' ; every state must be U (1e-6)."""
    r.states += 1
    U1 = inv_euler(r, mod, U, key)
    r.transitions += 1
    if U1 is None:
        return
    # continue from the state reached (library constructors from library inverses)
    try:
        e = mod.u_to_euler(U)
        V = np.asarray(mod.euler_to_u(*[float(x) for x in e]), float)
        r.check("chain-euler", float(np.max(np.abs(V - U))), 1e-6, key + ":chain-e", "euler_to_u(u_to_euler(U)) = U", U, V)
        r.transitions += 1
        W = inv_rod(r, mod, V, key + ":chain")
        r.transitions += 1
        if W is not None:
            # W must be accepted again and stay at U
            X = inv_euler(r, mod, W, key + ":chain2")
            r.transitions += 1
            if X is not None:
                r.check("chain-closure", float(np.max(np.abs(X - U))), 3e-6, key + ":chain-closure", "reachable set of the conversion graph is {U}", U, X)
    except Exception as ex:
        r.violation(key + ":chain", "conversion chain raised", None, repr(ex))
    inv_rod(r, mod, U, key)


def check_case(case):
    import xfab.laue
    import xfab.tools

    mname = case["mod"]
    mod = {"tools": xfab.tools, "laue": xfab.laue}[mname]
    r = CaseResult()
    k = case["kind"]
    tier = case["tier"]
    if k == "ctor1":
        for a in ang1():
            key = "%s:form_omega_mat(%r)" % (mname, a)
            M = mod.form_omega_mat(a)
            if proper(r, M, key):
                r.check("ctor", float(np.max(np.abs(M - Rz(a)))), 1e-12, key, "form_omega_mat = Rz(omega)", Rz(a), M)
            if a % (2 * math.pi) != 0:
                r.nontrivial.add("form_omega_mat:%r" % a)
        r.states = len(ang1())
    elif k == "ctor3":
        a = case["a"]
        A = ang3(tier)
        for b, c in itertools.product(A, repeat=2):
            for fname, args, ref in (
                ("form_omega_mat_general", (a, b, c), lambda: Rx(b) @ Ry(c) @ Rz(a)),
                ("detect_tilt", (a, b, c), lambda: Rx(a) @ Ry(b) @ Rz(c)),
                ("quart_to_omega", (math.degrees(a), b, c), lambda: (Rx(b) @ Ry(c)) @ Rz(a) @ (Rx(b) @ Ry(c)).T),
            ):
                key = "%s:%s%r" % (mname, fname, args)
                M = getattr(mod, fname)(*args)
                R = ref()
                if proper(r, M, key, tol=1e-11 if abs(a) > 100 else 1e-12):
                    r.check("ctor", float(np.max(np.abs(M - R))), 1e-11 if abs(a) > 100 else 1e-12, key, "%s equals the documented composition" % fname, R, M)
                r.nontrivial.add("%s:%r" % (fname, args))
        r.states = len(A) ** 2 * 3
    elif k == "euler":
        p1 = case["phi1"]
        g = [k_ * math.pi / 12 for k_ in range(25)]
        for P, p2 in itertools.product(g, g):
            key = "%s:euler_to_u(%r,%r,%r)" % (mname, p1, P, p2)
            M = mod.euler_to_u(p1, P, p2)
            R = euler_ref(p1, P, p2)
            if proper(r, M, key):
                r.check("ctor", float(np.max(np.abs(M - R))), 1e-12, key, "euler_to_u = Rz(phi1)Rx(PHI)Rz(phi2)", R, M)
            r.nontrivial.add("euler:%r,%r,%r" % (p1, P, p2))
            if P <= math.pi + 1e-12:
                chain(r, mod, R, "%s:U=euler(%r,%r,%r)" % (mname, p1, P, p2))
    elif k == "band":
        d = case["d"]
        PHI = d if case["end"] == 0 else math.pi - d
        for p1, p2 in itertools.product(phis(), repeat=2):
            R = euler_ref(p1, PHI, p2)
            key = "%s:U=euler(%r,%r,%r)" % (mname, p1, PHI, p2)
            M = mod.euler_to_u(p1, PHI, p2)
            r.check("ctor", float(np.max(np.abs(M - R))), 1e-12, key + ":ctor", "euler_to_u = Rz(phi1)Rx(PHI)Rz(phi2)", R, M)
            chain(r, mod, R, key)
            r.nontrivial.add("band:%r,%r,%r" % (p1, PHI, p2))
            # the same rotation carrying ordinary rounding noise in its "zero" entries (a product A.(A'.R), not a formula-built matrix):
            # proper to 1e-15, yet no element is exactly 0 or 1
            if d <= 1e-9 and phis().index(p2) % 4 == 0:
                for qa in ((2, 1, 0, -1), (1, 2, -1, 3)):
                    A = alph.quat_to_mat(qa)
                    Rn = A @ (A.T @ R)
                    chain(r, mod, Rn, key + ":noisy%s" % (qa,))
    elif k == "rod":
        dirs = alph.directions(2 if tier == "quick" else 3)
        for dvec in dirs:
            ax = np.array(dvec, float) / math.sqrt(sum(x * x for x in dvec))
            for n in (0.0, 1e-3, 0.1, 1.0, 10.0, 1e3):
                rv = ax * n
                key = "%s:rod_to_u(%s*%g)" % (mname, dvec, n)
                M = mod.rod_to_u(rv)
                R = rod_active(rv).T
                if proper(r, M, key):
                    r.check("ctor", float(np.max(np.abs(M - R))), 1e-12, key, "rod_to_u = transpose of the active rotation about r by 2 atan|r|", R, M)
                if n > 0:
                    r.nontrivial.add("rod:%s:%g" % (dvec, n))
                if n <= 1e3:
                    # inverse from a constructor output (non-initial state); |r| = 1e3 is 0.115 deg from a half turn
                    back = inv_rod(r, mod, np.asarray(M, float), key)
        # argument kinds: whole-number Rodrigues vectors as int list / tuple / int array / float32; whole-number angles as int / numpy ints
        for iv in ((1, 2, 3), (0, 0, 2), (1, 0, 0), (-1, 1, 0), (0, 0, 0), (2, -3, 1)):
            R = rod_active(np.array(iv, float)).T
            for kn, arg in (("list-int", list(iv)), ("tuple-int", tuple(iv)), ("int64", np.array(iv, dtype=np.int64)), ("int32", np.array(iv, dtype=np.int32)),
                            ("float32", np.array(iv, dtype=np.float32))):
                key = "%s:rod_to_u(%s as %s)" % (mname, iv, kn)
                M = mod.rod_to_u(arg)
                if proper(r, M, key, tol=1e-6 if kn == "float32" else 1e-12):
                    r.check("ctor-argkind", float(np.max(np.abs(np.asarray(M, float) - R))), 1e-6 if kn == "float32" else 1e-12, key, "rod_to_u for a %s vector" % kn, R, M)
        for ia in ((0, 1, 2), (3, 0, 6), (6, 3, 1), (2, 2, 2)):
            for kn, conv in (("int", int), ("np.int64", np.int64), ("np.int32", np.int32), ("np.float32", np.float32)):
                a3 = tuple(conv(x) for x in ia)
                af = tuple(float(x) for x in a3)
                for fname, ref in (("euler_to_u", euler_ref(*af)), ("form_omega_mat_general", Rx(af[1]) @ Ry(af[2]) @ Rz(af[0])), ("detect_tilt", Rx(af[0]) @ Ry(af[1]) @ Rz(af[2])),
                                   ("quart_to_omega", None)):
                    if fname == "quart_to_omega":
                        ref = (Rx(af[1]) @ Ry(af[2])) @ Rz(math.radians(af[0])) @ (Rx(af[1]) @ Ry(af[2])).T
                    key = "%s:%s%r as %s" % (mname, fname, ia, kn)
                    M = getattr(mod, fname)(*a3)
                    tolk = 1e-6 if kn == "np.float32" else 1e-12
                    if proper(r, M, key, tol=tolk):
                        r.check("ctor-argkind", float(np.max(np.abs(np.asarray(M, float) - ref))), tolk, key, "%s for %s arguments" % (fname, kn), ref, M)
            key = "%s:form_omega_mat(%r as int)" % (mname, ia[0])
            M = mod.form_omega_mat(int(ia[0]))
            r.check("ctor-argkind", float(np.max(np.abs(np.asarray(M, float) - Rz(float(ia[0]))))), 1e-12, key, "form_omega_mat for an int argument")
        # inverses: the same matrix as nested list, Fortran-ordered array, transposed view, float32 array
        for q, R in alph.quat_rots(1)[5:12]:
            e_ref = mod.u_to_euler(R)
            for kn, arg in (("nested list", R.tolist()), ("fortran", np.asfortranarray(R)), ("transposed view", np.ascontiguousarray(R.T).T), ("float32", R.astype(np.float32))):
                key = "%s:U=quat%s as %s" % (mname, q, kn)
                try:
                    e = [float(x) for x in mod.u_to_euler(arg)]
                    d = float(np.max(np.abs(euler_ref(*e) - R)))
                except Exception as ex:
                    d = float("inf")
                r.check("euler-argkind", d, 1e-6, key + ":u_to_euler", "u_to_euler for a %s matrix" % kn)
                if abs(1 + np.trace(R)) > 1e-3:
                    try:
                        d = float(np.max(np.abs(np.asarray(mod.u_to_rod(arg), float) - rod_from_u(R)))) / (1 + float(np.max(np.abs(rod_from_u(R)))))
                    except Exception:
                        d = float("inf")
                    r.check("rod-argkind", d, 1e-5 if kn == "float32" else 1e-9, key + ":u_to_rod", "u_to_rod for a %s matrix" % kn)
        r.states = len(dirs) * 6
    elif k == "ladder":
        # a logarithmic ladder of small angles: a shortcut "this tilt is negligible" would sit somewhere between 0 and 1e-2
        for (a, b, c) in itertools.product(LADDER, repeat=3):
            for fname, args, ref in (
                ("form_omega_mat_general", (a, b, c), lambda: Rx(b) @ Ry(c) @ Rz(a)),
                ("detect_tilt", (a, b, c), lambda: Rx(a) @ Ry(b) @ Rz(c)),
                ("quart_to_omega", (math.degrees(a), b, c), lambda: (Rx(b) @ Ry(c)) @ Rz(a) @ (Rx(b) @ Ry(c)).T),
                ("euler_to_u", (abs(a), abs(b), abs(c)), lambda: euler_ref(abs(a), abs(b), abs(c))),
            ):
                key = "%s:%s%r" % (mname, fname, args)
                M = getattr(mod, fname)(*args)
                R = ref()
                if proper(r, M, key):
                    r.check("ctor", float(np.max(np.abs(M - R))), 1e-13, key, "%s equals the documented composition (small angles)" % fname, R, M)
                r.nontrivial.add("%s:%r" % (fname, args))
        r.states = len(LADDER) ** 3 * 4
    elif k == "checks-off":
        # environment: the package switch xfab.CHECKS.activated = False is the documented way to reach "all real angles" for
        # euler_to_u (with the checks on, angles outside [0,2pi] are refused).  With the switch off every constructor of BOTH modules
        # must return the documented composition for negative angles and angles beyond 2pi as well.
        import xfab

        A = [k_ * math.pi / 6 for k_ in range(-6, 19, 3)] + [0.1, -0.1, 7.0, -1e3, 12345.678, 1e8, -1e12]
        xfab.CHECKS.activated = False
        try:
            for p1, P, p2 in itertools.product(A, repeat=3):
                key = "%s:checks-off:euler_to_u(%r,%r,%r)" % (mname, p1, P, p2)
                try:
                    M = mod.euler_to_u(p1, P, p2)
                except Exception as ex:
                    r.evals += 1
                    r.violation(key, "euler_to_u returns for every real angle triple once the package switch is off", None, repr(ex))
                    continue
                R = euler_ref(p1, P, p2)
                big = max(abs(p1), abs(P), abs(p2)) > 100
                if proper(r, M, key, tol=1e-11 if big else 1e-12):
                    r.check("ctor", float(np.max(np.abs(M - R))), 1e-11 if big else 1e-12, key, "euler_to_u = Rz(phi1)Rx(PHI)Rz(phi2) for all real angles (switch off)", R, M)
                r.nontrivial.add("off:euler:%r,%r,%r" % (p1, P, p2))
            for q, R in alph.quat_rots(1)[:20]:
                chain(r, mod, R, "%s:checks-off:U=quat%s" % (mname, q))
        finally:
            xfab.CHECKS.activated = True
        r.states = len(A) ** 3
    elif k == "forms":
        # argument kinds x call forms (positional / by documented keyword) for every constructor and inverse
        t12, t6 = 1e-12, 2e-6
        for ia in ((0.0, 1.0, 2.0), (3.0, 0.0, 6.0), (0.5, 0.25, 1.75), (6.0, 3.0, 1.0)):
            for fname in ("euler_to_u", "form_omega_mat_general", "detect_tilt", "quart_to_omega"):
                for pos in range(3):
                    variants(r, "%s:%s%r" % (mname, fname, ia), getattr(mod, fname), list(ia), pos, t12, t6)
            variants(r, "%s:form_omega_mat(%r)" % (mname, ia[0]), mod.form_omega_mat, [ia[0]], 0, t12, t6)
        # values exactly representable in single precision and used nowhere else in this process, passed in LOW precision first: the
        # float64 call that follows is judged against the harness's composition (a memo keyed on the angle's value would serve it the
        # single-precision matrix)
        for ia in ((1.4375, 0.71875, 2.109375), (5.0625, 3.03125, 0.265625), (1000.0, 0.5, 6.0)):
            refs = {"euler_to_u": euler_ref(*ia) if max(ia) < 7 else None, "form_omega_mat_general": Rx(ia[1]) @ Ry(ia[2]) @ Rz(ia[0]), "detect_tilt": Rx(ia[0]) @ Ry(ia[1]) @ Rz(ia[2]),
                    "quart_to_omega": (Rx(ia[1]) @ Ry(ia[2])) @ Rz(math.radians(ia[0])) @ (Rx(ia[1]) @ Ry(ia[2])).T}
            for fname, ref in refs.items():
                if ref is None:
                    continue
                for pos in range(3):
                    variants(r, "%s:%s%r" % (mname, fname, ia), getattr(mod, fname), list(ia), pos, t12, t6, oracle=ref)
            variants(r, "%s:form_omega_mat(%r)" % (mname, ia[0] + 0.015625), mod.form_omega_mat, [ia[0] + 0.015625], 0, t12, t6, oracle=Rz(ia[0] + 0.015625))
        for iv in ((1.0, 2.0, 3.0), (0.0, 0.0, 2.0), (0.25, -0.5, 0.125), (0.0, 0.0, 0.0)):
            variants(r, "%s:rod_to_u(%r)" % (mname, iv), mod.rod_to_u, [list(iv)], 0, t12, t6)
        for q, R in alph.quat_rots(1)[:14]:
            reb = lambda a, b: float(np.max(np.abs(euler_ref(*[float(x) for x in b]) - euler_ref(*[float(x) for x in a]))))
            variants(r, "%s:u_to_euler(quat%s)" % (mname, q), mod.u_to_euler, [R], 0, 1e-6, 1e-5, dev=reb)
            if abs(1 + np.trace(R)) > 1e-3:
                variants(r, "%s:u_to_rod(quat%s)" % (mname, q), mod.u_to_rod, [R], 0, 1e-9, 1e-5)
        r.states = 14
    elif k == "quat":
        Q = alph.quat_rots(case["N"])[case["lo"]:case["hi"]]
        for q, R in Q:
            key = "%s:U=quat%s" % (mname, q)
            chain(r, mod, R, key)
            # exact rational reference for the Rodrigues vector: active quaternion of U' is (w,-x,-y,-z)
            if q[0] != 0:
                ref = -np.array(q[1:], float) / q[0]
                try:
                    rv = np.asarray(mod.u_to_rod(R), float)
                    r.check("rod-exact", float(np.max(np.abs(rv - ref))) / (1 + float(np.max(np.abs(ref)))), 1e-9, key + ":rod-exact", "u_to_rod equals the rational reference", ref, rv)
                except Exception as ex:
                    r.violation(key + ":u_to_rod", "u_to_rod raised", None, repr(ex))
            r.nontrivial.add("quat:%s" % (q,))
    if not r.transitions:
        r.transitions = r.evals
    return r


def alphabet(tier):
    return {"one_angle_values": len(ang1()), "three_angle_values": len(ang3(tier)), "gimbal_band": alph.GIMBAL_BAND, "band_phis": len(phis()),
            "quaternion_rotations": len(alph.quat_rots(2 if tier == "quick" else 3))}


def samples(cases):
    return [cases[0], cases[30], cases[60], cases[len(cases) // 2 - 2], cases[-1]]
