"""C04 - each tabulated space group is a group consistent with its metadata and names.

Finite space, covered completely with exact (integer / Fraction) arithmetic:
  state      = one table (237 settings) or one dictionary name in one spelling (244 x 6)
  transition = one composition of two tabulated operations / one lookup
"""
from __future__ import annotations

import itertools

from .. import alph
from .. import oracles as O
from ..core import CaseResult

PROP = "C04"
LEVEL = "model_checking"
RULE = ("every one of the 237 tables (230 numbers + 7 rhombohedral settings) is loaded through xfab.sg.sg and through "
        "xfab.sglib directly; every operation, every ordered pair of operations (closure), every rotation against every basis "
        "element of the conforming metric tensors, and every key of the name dictionary in 6 spellings is examined with exact "
        "arithmetic. distinct_nontrivial counts distinct (table, clause) and (name, spelling) items examined.")
ASSUMPTIONS = ["translations are multiples of 1/24 tabulated to 6 decimals (verified for every entry, 2e-6)",
               "monoclinic groups are tabulated in the unique-axis-b setting, trigonal R groups in obverse hexagonal axes",
               "reference Laue groups are generated in the harness from standard generators (Int. Tab. A)",
               "CPython integer and Fraction arithmetic"]

LAUE_GEN = {
    # generators (acting on column coordinates) of the Laue group in the tabulated axis setting
    "-1": [],
    "2/m": [((-1, 0, 0), (0, 1, 0), (0, 0, -1))],
    "mmm": [((-1, 0, 0), (0, -1, 0), (0, 0, 1)), ((-1, 0, 0), (0, 1, 0), (0, 0, -1))],
    "4/m": [((0, -1, 0), (1, 0, 0), (0, 0, 1))],
    "4/mmm": [((0, -1, 0), (1, 0, 0), (0, 0, 1)), ((-1, 0, 0), (0, 1, 0), (0, 0, -1))],
    "-3": [((0, -1, 0), (1, -1, 0), (0, 0, 1))],
    "-3m1": [((0, -1, 0), (1, -1, 0), (0, 0, 1)), ((0, 1, 0), (1, 0, 0), (0, 0, -1))],
    "-31m": [((0, -1, 0), (1, -1, 0), (0, 0, 1)), ((0, -1, 0), (-1, 0, 0), (0, 0, -1))],
    "-3m": [((0, -1, 0), (1, -1, 0), (0, 0, 1)), ((0, 1, 0), (1, 0, 0), (0, 0, -1))],
    "6/m": [((1, -1, 0), (1, 0, 0), (0, 0, 1))],
    "6/mmm": [((1, -1, 0), (1, 0, 0), (0, 0, 1)), ((0, 1, 0), (1, 0, 0), (0, 0, -1))],
    "m-3": [((-1, 0, 0), (0, -1, 0), (0, 0, 1)), ((-1, 0, 0), (0, 1, 0), (0, 0, -1)), ((0, 0, 1), (1, 0, 0), (0, 1, 0))],
    "m-3m": [((0, -1, 0), (1, 0, 0), (0, 0, 1)), ((0, 0, 1), (1, 0, 0), (0, 1, 0)), ((-1, 0, 0), (0, 1, 0), (0, 0, -1))],
}
LAUE_GEN_RHOMB = {
    "-3": [((0, 0, 1), (1, 0, 0), (0, 1, 0))],
    "-3m": [((0, 0, 1), (1, 0, 0), (0, 1, 0)), ((0, -1, 0), (-1, 0, 0), (0, 0, -1))],
}
LAUE_ORDER = {"-1": 2, "2/m": 4, "mmm": 8, "4/m": 8, "4/mmm": 16, "-3": 6, "-3m": 12, "-3m1": 12, "-31m": 12,
              "6/m": 12, "6/mmm": 24, "m-3": 24, "m-3m": 48}
LAUE_OF_SYSTEM = {"triclinic": {"-1"}, "monoclinic": {"2/m"}, "orthorhombic": {"mmm"}, "tetragonal": {"4/m", "4/mmm"},
                  "trigonal": {"-3", "-3m", "-3m1", "-31m"}, "hexagonal": {"6/m", "6/mmm"}, "cubic": {"m-3", "m-3m"}}
RANGE = {"triclinic": (1, 2), "monoclinic": (3, 15), "orthorhombic": (16, 74), "tetragonal": (75, 142), "trigonal": (143, 167),
         "hexagonal": (168, 194), "cubic": (195, 230)}


def generate(gens):
    S = {O.IDENT, O.neg(O.IDENT)}
    gens = list(gens) + [O.neg(O.IDENT)]
    frontier = list(S)
    while frontier:
        a = frontier.pop()
        for g in gens:
            b = O.matmul(a, g)
            if b not in S:
                S.add(b)
                frontier.append(b)
    return S


def E(i, j):
    return tuple(tuple(1 if (r, c) in ((i, j), (j, i)) else 0 for c in range(3)) for r in range(3))


def add(*ms):
    return tuple(tuple(sum(m[i][j] for m in ms) for j in range(3)) for i in range(3))


def scal(k, m):
    return tuple(tuple(k * x for x in row) for row in m)


def metric_basis(cs, rhomb):
    """Integer basis of the linear space of metric tensors conforming to the crystal system/setting."""
    if cs == "triclinic":
        return [E(0, 0), E(1, 1), E(2, 2), E(0, 1), E(0, 2), E(1, 2)]
    if cs == "monoclinic":
        return [E(0, 0), E(1, 1), E(2, 2), E(0, 2)]
    if cs == "orthorhombic":
        return [E(0, 0), E(1, 1), E(2, 2)]
    if cs == "tetragonal":
        return [add(E(0, 0), E(1, 1)), E(2, 2)]
    if cs in ("trigonal", "hexagonal"):
        if rhomb:
            return [add(E(0, 0), E(1, 1), E(2, 2)), add(E(0, 1), E(0, 2), E(1, 2))]
        return [add(scal(2, E(0, 0)), scal(2, E(1, 1)), scal(-1, E(0, 1))), E(2, 2)]
    if cs == "cubic":
        return [add(E(0, 0), E(1, 1), E(2, 2))]
    raise ValueError(cs)


def spellings(name):
    return [name, name.upper(), name.title(), " ".join(name), "\t" + name[:1] + " \n" + name[1:] + "\n", "  " + name.upper() + "   "]


def cases(tier, seed):
    bind = __import__("xmc.core", fromlist=["bind_repo"]).bind_repo
    bind()
    from xfab import sg

    cs = [{"kind": "table", "no": no, "cc": cc} for no, cc in alph.SETTINGS]
    for name in sg.sgdic:
        cs.append({"kind": "name", "name": name})
    for no in range(1, 231):
        cs.append({"kind": "hm", "no": no})
    cs.append({"kind": "dict"})
    return cs


def np_equal(a, b):
    import numpy as np

    return np.array_equal(np.asarray(a), np.asarray(b))


def same_group(g, h):
    import numpy as np

    return (g.no == h.no and g.name == h.name and g.crystal_system == h.crystal_system and g.nsymop == h.nsymop
            and g.nuniq == h.nuniq and g.Laue == h.Laue and g.cell_choice == h.cell_choice
            and np.array_equal(np.asarray(g.syscond), np.asarray(h.syscond)) and np.array_equal(np.asarray(g.rot), np.asarray(h.rot))
            and np.array_equal(np.asarray(g.trans), np.asarray(h.trans)))


def check_case(case):
    from xfab import sg, sglib

    r = CaseResult()
    if case["kind"] == "table":
        no, cc = case["no"], case["cc"]
        key = "Sg%d/%s" % (no, cc)
        g = sg.sg(sgno=no, cell_choice="".join(list(cc)))  # the setting as a string built at run time, not a source literal
        # the raw table object, if the library still keeps one class per group (an implementation detail: not demanded)
        raw = getattr(sglib, "Sg%d" % no)(cell_choice=cc) if hasattr(sglib, "Sg%d" % no) else None
        if raw is not None:
            r.require(same_group(g, raw), key + ":wrapper", "lookup by number returns the tabulated group (sg.sg vs the sglib table)")
        r.require(g.no == no, key + ":no", "number attribute", no, g.no)
        r.require(len(g.rot) == g.nsymop and len(g.trans) == g.nsymop, key + ":count", "len(rot)=len(trans)=nsymop",
                  g.nsymop, [len(g.rot), len(g.trans)])
        r.require(len(g.syscond) == 26, key + ":syscond", "26 reflection-condition slots", 26, len(g.syscond))
        try:
            ops = O.exact_ops(g)
        except ValueError as ex:
            r.violation(key + ":exact", "entries are not integers / multiples of 1/24", observed=str(ex))
            return r
        S = set(ops)
        r.require(len(S) == len(ops), key + ":dup", "no duplicate operations", len(ops), len(S))
        r.require((O.IDENT, (0, 0, 0)) in S, key + ":identity", "identity present")
        bad = []
        for a in ops:
            for b in ops:
                r.transitions += 1
                if O.compose(a, b) not in S:
                    bad.append((a, b))
        r.evals += len(ops) * len(ops)
        if bad:
            r.violation(key + ":closure", "not closed under composition mod lattice translations", observed={"pairs": len(bad), "first": bad[0]})
        noinv = [a for a in ops if not any(O.compose(a, b) == (O.IDENT, (0, 0, 0)) for b in ops)]
        r.require(not noinv, key + ":inverse", "every operation has its inverse in the table", observed=noinv[:1])
        rots = [o[0] for o in ops]
        uniq = list(dict.fromkeys(rots))
        r.require(len(uniq) == g.nuniq, key + ":nuniq", "nuniq = number of distinct rotation parts", len(uniq), g.nuniq)
        r.require(rots[:g.nuniq] == uniq, key + ":first-nuniq", "first nuniq rotations are the distinct point-group rotations")
        cen = [o[1] for o in ops if o[0] == O.IDENT]
        r.require(g.nsymop == g.nuniq * len(cen), key + ":centring", "nsymop = nuniq x centring translations", g.nuniq * len(cen), g.nsymop)
        # every operation is one of the first nuniq operations followed by a centring translation
        first = ops[:g.nuniq]
        prod = {(R, tuple((t[i] + c[i]) % 1 for i in range(3))) for R, t in first for c in cen}
        r.require(prod == S, key + ":coset", "table = (first nuniq operations) x (centring translations)")
        r.require(all(abs(O.det3(R)) == 1 for R in uniq), key + ":unimodular", "rotation parts are unimodular")
        # Laue class / crystal system
        rhomb = (g.cell_choice == "rhombohedral")
        pg = set(uniq) | {O.neg(R) for R in uniq}
        want = LAUE_ORDER.get(g.Laue)
        r.require(want is not None and len(pg) == want, key + ":laue-order", "|P u -P| equals the order of the stated Laue class", want, len(pg))
        gens = (LAUE_GEN_RHOMB if rhomb else LAUE_GEN).get(g.Laue)
        if gens is not None:
            ref = generate(gens)
            r.require(pg == ref, key + ":laue-group", "P u -P equals the reference Laue group %s" % g.Laue,
                      sorted(ref - pg)[:2], sorted(pg - ref)[:2])
        r.require(g.Laue in LAUE_OF_SYSTEM.get(g.crystal_system, ()), key + ":laue-system", "Laue class belongs to the crystal system",
                  g.crystal_system, g.Laue)
        lo, hi = RANGE.get(g.crystal_system, (0, -1))
        r.require(lo <= no <= hi, key + ":system", "crystal system matches the number range", (lo, hi), g.crystal_system)
        r.require((cc == "rhombohedral") == rhomb, key + ":cell_choice", "the rhombohedral setting is delivered iff it was asked for", cc, g.cell_choice)
        for G in metric_basis(g.crystal_system, rhomb):
            for R in uniq:
                r.transitions += 1
                ok = O.matmul(O.transpose(R), O.matmul(G, R)) == G
                r.require(ok, key + ":metric", "R'GR = G for every conforming metric tensor", G, R)
                if not ok:
                    break
        # name attribute, normalised, is a key for the same class
        nm = "".join(g.name.split()).lower()
        r.require(sg.sgdic.get(nm) == "Sg%d" % no, key + ":name-attr", "normalised name attribute is a dictionary key of this class", "Sg%d" % no,
                  [g.name, sg.sgdic.get(nm)])
        if no in alph.RHOMB:
            r.require((nm[0] == "r" and nm[-1] == "r") == rhomb, key + ":name-suffix", "rhombohedral tables carry the r suffix", rhomb, g.name)
        # history: the caller edits the arrays it was given, then looks the group up again (by number and by its own name)
        from ..core import scribble

        syscond0 = [int(x) for x in g.syscond]
        for arr in (g.rot, g.trans, g.syscond):
            scribble(arr)
        g2 = sg.sg(sgno=no, cell_choice=cc)
        r.require(O.exact_ops(g2) == ops and g2.nsymop == len(ops) and g2.nuniq == len(uniq) and np_equal(g2.syscond, syscond0), key + ":relookup",
                  "a second lookup is not affected by in-place edits of the arrays of the first")
        try:
            g3 = sg.sg(sgname=g2.name)
            r.require(same_group(g3, g2), key + ":relookup-name", "lookup by the group's own name after in-place edits of an earlier result")
        except Exception as ex:
            r.violation(key + ":relookup-name", "lookup by the group's own name", None, repr(ex))
        r.states = 1
        r.nontrivial.add(key)
        r.nontrivial.update("%s:op%d" % (key, i) for i in range(len(ops)))
    elif case["kind"] == "name":
        name = case["name"]
        kl = sg.sgdic[name]
        no = int(kl[2:])
        cc = "rhombohedral" if (name[0] == "r" and name[-1] == "r") else "standard"
        h = sg.sg(sgno=no, cell_choice=cc)
        for i, sp in enumerate(spellings(name)):
            key = "name:%s:%d" % (name, i)
            try:
                g = sg.sg(sgname=sp)
                ok = same_group(g, h)
                obs = None if ok else [g.no, g.name, g.cell_choice]
            except Exception as ex:
                ok = False
                obs = repr(ex)
            r.require(ok, key, "lookup by name %r equals lookup by number %d (%s)" % (sp, no, cc), [no, cc], obs)
            r.transitions += 1
            r.nontrivial.add(key)
        # an explicit cell_choice given with an ...r name must not matter, and a rhombohedral request by name without suffix
        if no in alph.RHOMB and cc == "standard":
            g = sg.sg(sgname=name, cell_choice="rhombohedral")
            r.require(same_group(g, sg.sg(sgno=no, cell_choice="rhombohedral")), "name:%s:cc" % name,
                      "name + cell_choice='rhombohedral' equals number + rhombohedral")
        r.states = 1
    elif case["kind"] == "hm":
        # the harness's own Hermann-Mauguin table (oracles.HM) says which group a name denotes; every way of asking for the group
        # (number, compact name, name written with blanks between the symbol elements, R names with h / r suffix or an explicit
        # cell_choice, in keyword and in positional form) must deliver the table of that number and setting
        no = case["no"]
        for cc in (("standard", "rhombohedral") if no in alph.RHOMB else ("standard",)):
            h = sg.sg(sgno=no, cell_choice=cc)
            want_name = O.hm_compact(no) + ("r" if cc == "rhombohedral" else "")
            got_name = "".join(h.name.split()).lower()
            r.require(h.no == no and (got_name == want_name or (no in alph.RHOMB and cc == "standard" and got_name == want_name + "h")), "hm:%d/%s:name" % (no, cc),
                      "group %d carries its Hermann-Mauguin symbol" % no, want_name, [h.no, h.name])
            for lab, kw in O.group_forms(no, cc):
                forms = [(lab, (), kw), (lab + ":positional", (kw.get("sgno"), kw.get("sgname"), kw.get("cell_choice", "standard")), {})]
                for lab2, a, k2 in forms:
                    key = "hm:%d/%s:%s" % (no, cc, lab2)
                    try:
                        g = sg.sg(*a, **k2)
                        ok = same_group(g, h)
                        obs = None if ok else [g.no, g.name, g.cell_choice]
                    except Exception as ex:
                        ok = False
                        obs = repr(ex)
                    r.require(ok, key, "sg.sg(%s) is group %d in the %s setting" % (", ".join("%s=%r" % kv for kv in kw.items()), no, cc), [no, cc], obs)
                    r.transitions += 1
                    r.nontrivial.add(key)
        r.states = 1
    else:
        # the dictionary does not depend on which other modules of the package have been imported (two fresh interpreters)
        import json
        import os
        import subprocess
        import sys

        from ..core import REPO

        code = ("import sys, json; sys.path.insert(0, %r); import warnings; warnings.simplefilter('ignore'); import xfab.sg as s; a = dict(s.sgdic)\n"
                "import pkgutil, importlib, xfab\n"
                "for m in pkgutil.iter_modules(xfab.__path__): importlib.import_module('xfab.' + m.name)\n"
                "print(json.dumps([a, dict(s.sgdic)]))") % REPO
        out = subprocess.run([sys.executable, "-c", code], capture_output=True, text=True, env=dict(os.environ, PYTHONDONTWRITEBYTECODE="1"))
        try:
            a, b = json.loads(out.stdout.strip().splitlines()[-1])
            diff = sorted(k for k in set(a) | set(b) if a.get(k) != b.get(k))
            r.require(not diff, "dict:import-order", "the name dictionary is the same before and after the other modules of the package are imported", [], diff[:10])
            want = {nm: "Sg%d" % k[0] for nm, k in O.name_to_setting().items()}
            wrong = sorted(k for k in want if a.get(k) != want[k])
            r.require(not wrong, "dict:hm", "every Hermann-Mauguin name maps to its own number", [], [(k, a.get(k)) for k in wrong[:10]])
        except Exception as ex:
            r.violation("dict:import-order", "the name dictionary can be read in a fresh interpreter", None, repr(ex) + out.stderr[-300:])
        # the dictionary as a whole: every number 1..230 reachable, every value names an existing class
        vals = set(sg.sgdic.values())
        missing = [i for i in range(1, 231) if "Sg%d" % i not in vals]
        r.require(not missing, "dict:complete", "every space-group number has a name", [], missing)
        for v in sorted(vals):
            try:
                sg.sg(sgno=int(v[2:]))
                okv = True
            except Exception:
                okv = False
            r.require(okv, "dict:classes:" + v, "every dictionary value names a group that can be looked up by number")
        r.require(all(k == "".join(k.split()).lower() for k in sg.sgdic), "dict:keys", "keys are normalised (lower case, no blanks)")
        r.states = 1
        r.nontrivial.add("dict")
    r.traces = r.evals
    return r


def alphabet(tier):
    return {"tables": 237, "name_spellings": 6, "same in both tiers": True}


def samples(cases):
    return [cases[0], cases[13], cases[236], cases[237], cases[-2], cases[-1]]
