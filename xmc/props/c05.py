"""C05 - genhkl_all returns exactly the reflections the space group allows in the shell."""
from __future__ import annotations

import numpy as np

from .. import alph
from .. import genhkl as G
from .. import oracles as O
from ..core import CaseResult, bind_repo, seed_from_env, twice

PROP = "C05"
LEVEL = "exploration"
SECOND_SCHEDULE = 4  # stride of the reverse-order history pass (0 = off, 1 = every case)
RULE = ("237 settings x conforming cells (orthogonal-metric and oblique for triclinic/monoclinic, two to six alpha for rhombohedral) x "
        "shells (0,s1] and (s0,s1'] whose bounds are moved to the midpoint between neighbouring lattice-point values x both modules; "
        "genhkl_all compared as a multiset of integer rows with a brute-force scan of the true index box (extinction decided exactly "
        "from the group's own operations); repeated under numpy RNG seeds 0, 1 and VERIF_SEED; called by number and by every "
        "dictionary name; rhombohedral vs hexagonal setting under the obverse transformation. distinct_nontrivial = distinct "
        "(module, setting, cell, shell) tuples whose oracle list is non-empty and which contain at least one extinct lattice point "
        "or a non-orthogonal cell, plus all the others counted once per setting.")
ASSUMPTIONS = ["|h_i| <= 2 s1 a_i bounds the index box (true for every lattice)", "sin(theta)/lambda from the harness metric tensor",
               "shell bounds are >= 1e-5 (relative) away from every lattice-point value by construction",
               "extinction rules with a period larger than the largest index reached would be invisible (none exist beyond 6)"]

# the last shell of each tier is thin and far out: it holds only high-index reflections (|h| up to 10-15), where
# collisions of a hash-like de-duplication key or an index overflow would first show
SHELLS = {"quick": [(0.0, 0.62), (0.21, 0.45), (0.94, 1.02)], "thorough": [(0.0, 0.86), (0.21, 0.62), (0.0, 0.43), (0.3, 0.47), (1.17, 1.25)]}
SMALL = {"quick": (0.0, 0.30), "thorough": (0.0, 0.37)}


def cases(tier, seed):
    bind_repo()
    from xfab import sg

    names = O.setting_names(sg.sgdic)
    cs = []
    for no, cc in alph.SETTINGS:
        g = sg.sg(sgno=no, cell_choice=cc)
        for ci, cell in enumerate(alph.conforming_cells(g.crystal_system, g.cell_choice, tier)):
            for mod in ("tools", "laue"):
                cs.append({"mod": mod, "no": no, "cc": cc, "cell": cell, "tier": tier, "names": names[(no, cc)] if ci == 0 else [], "seed": seed,
                           "far": mod == "tools" or ci == 0})
    # cell sweep: one representative group per Laue class / setting x a lattice of conforming cells (the traversal in
    # genhkl_base depends on the cell shape; the short per-system list above cannot show a cell-specific slip)
    for no, cc in SWEEP_GROUPS:
        g = sg.sg(sgno=no, cell_choice=cc)
        for cell in sweep_cells(g.crystal_system, g.cell_choice, tier):
            for mod in (("tools",) if (tier == "quick" and max(cell[:3]) < 2000) else ("tools", "laue")):
                cs.append({"mod": mod, "no": no, "cc": cc, "cell": cell, "tier": tier, "names": [], "seed": seed, "sweep": True})
    # very large cells (virus-size, > 1000 A): absolute tolerances on reciprocal quantities bite here; shells with bounds 5e-9 from lattice values
    for no, cell in ((19, [1012.7, 1187.4, 1365.9, 90.0, 90.0, 90.0]), (2, [1012.7, 1187.4, 1365.9, 82.0, 97.0, 104.0]), (75, [1503.3, 1503.3, 1211.9, 90.0, 90.0, 90.0])):
        for mod in ("tools", "laue"):
            cs.append({"mod": mod, "no": no, "cc": "standard", "cell": cell, "tier": tier, "names": [], "seed": seed, "big": True})
    # cells typed with whole numbers, in every container / dtype (alph.kinds): one representative group per Laue class / setting
    for no, cc in SWEEP_GROUPS:
        g = sg.sg(sgno=no, cell_choice=cc)
        for cell in alph.int_cells(g.crystal_system, g.cell_choice):
            for mod in ("tools", "laue"):
                cs.append({"mod": mod, "no": no, "cc": cc, "cell": cell, "tier": tier, "names": [], "seed": seed, "cellkinds": True})
    return cs


SWEEP_GROUPS = [(1, "standard"), (2, "standard"), (3, "standard"), (14, "standard"), (16, "standard"), (75, "standard"), (89, "standard"), (143, "standard"),
                (149, "standard"), (150, "standard"), (146, "rhombohedral"), (155, "rhombohedral"), (168, "standard"), (177, "standard"), (195, "standard"), (207, "standard")]


def sweep_cells(cs_, cc, tier):
    a, b, c = 4.1, 5.3, 6.7
    if cs_ == "triclinic":
        angs = [60, 75, 90, 105, 120] if tier == "quick" else [50, 60, 75, 90, 105, 120, 130]
        cells = [[a, b, c, float(x), float(y), float(z)] for x in angs for y in angs for z in angs if alph.gram(x, y, z) >= 0.1]
        cells += [[a, b, c, 90.0004, 89.9996, 90.0], [a, b, c, 150.0, 90.0, 90.0], [a, b, c, 90.0, 90.0, 30.0], [c, a, b, 80.0, 85.0, 150.0]]
        return cells[:: (4 if tier == "quick" else 1)] + [[3.0, 4.0, 2400.0, 90.0, 90.0, 90.0]]
    if cs_ == "monoclinic":
        bs = [50, 70, 90.0004, 110, 130, 150] if tier == "quick" else [40, 50, 60, 70, 80, 89.9996, 90.0004, 100, 110, 120, 130, 140, 150, 160]
        return [[a, b, c, 90.0, float(x), 90.0] for x in bs] + [[c, b, a, 90.0, float(x), 90.0] for x in bs[::2]]
    # LONG marks cells with one very long axis: a thin shell there reaches |index| > 127 (and > 255 in thorough)
    if cs_ == "orthorhombic":
        return [[a, b, c, 90., 90., 90.], [c, a, b, 90., 90., 90.], [2.0, 9.0, 4.0, 90., 90., 90.], [9.0, 2.0, 4.0, 90., 90., 90.], [3.0, 3.5, 380.0, 90., 90., 90.],
                [3.0, 4.0, 2400.0, 90., 90., 90.], [3.0, 2400.0, 4.0, 90., 90., 90.]]  # indices beyond 1000 on l / on k
    if cs_ == "tetragonal":
        return [[a, a, x, 90., 90., 90.] for x in (1.5, 4.1, 9.7)] + [[3.0, 3.0, 400.0, 90., 90., 90.]] + ([[3.0, 3.0, 900.0, 90., 90., 90.]] if tier == "thorough" else [])
    if cs_ in ("trigonal", "hexagonal"):
        if cc == "rhombohedral":
            als = [40, 60, 80, 90, 95, 110] if tier == "quick" else [30, 40, 50, 60, 70, 80, 89.9996, 90.0, 95, 100, 105, 110, 115, 118]
            return [[a, a, a, float(x), float(x), float(x)] for x in als]
        return [[a, a, x, 90., 90., 120.] for x in (1.5, 4.1, 9.7)]
    return [[a, a, a, 90., 90., 90.], [7.9, 7.9, 7.9, 90., 90., 90.]]


def compare_all(r, key, rows, integral, ref, fam, what="genhkl_all"):
    r.require(integral, key + ":integral", "%s: all indices are integers" % what)
    got = {}
    for h in rows:
        got[h] = got.get(h, 0) + 1
    rep = sorted([h for h, n in got.items() if n > 1])
    miss = sorted(set(ref) - set(got), key=lambda h: (ref[h], h))
    extra = sorted(set(got) - set(ref))
    r.evals += 1
    ok = not (rep or miss or extra)
    if not ok:
        mf = sorted({min(fam(h)) for h in miss})
        r.violation(key + ":set", "%s = exactly the allowed reflections of the shell (none missing, extra or repeated)" % what,
                    {"n_allowed": len(ref)}, {"n_returned": len(rows), "missing": len(miss), "extra": len(extra), "repeated": len(rep),
                                              "missing_families": mf[:12], "extra_first": extra[:6], "repeated_first": rep[:4]})
    return ok


def check_case(case):
    import xfab.laue
    import xfab.tools
    from xfab import sg

    mod = {"tools": xfab.tools, "laue": xfab.laue}[case["mod"]]
    r = CaseResult()
    no, cc, cell, tier = case["no"], case["cc"], case["cell"], case["tier"]
    g = sg.sg(sgno=no, cell_choice=cc)
    shells = SHELLS[tier]
    if case.get("sweep"):
        m = min(cell[:3])
        # a ladder of cut-offs: a traversal that leaves a row too early loses reflections erratically in sintlmax
        shells = [(0.0, 2.6 / m), (1.1 / m, 2.1 / m), (0.0, 1.63 / m), (0.0, 1.9 / m), (0.7 / m, 2.33 / m), (0.0, 2.95 / m), (0.0, 2.51 / m), (1.3 / m, 3.3 / m),
                  (1.9 / m, 3.63 / m), (2.4 / m, 3.98 / m)]
        if max(cell[:3]) > 100:  # long axis: a thin shell that contains (0,0,l) with l ~ 130 (or ~ 300) and its neighbours
            M = max(cell[:3])
            shells = [(64.2 / M, 68.7 / M)] if M < 500 else ([(150.2 / M, 152.1 / M)] if M < 2000 else [(0.24295, 0.24305)])  # the last: |index| ~ 1000 on the long axis
    elif case.get("big"):
        shells = [(0.0, 0.0045), (0.002, 0.0036)]
    elif not case.get("far", True):
        shells = shells[:-1]  # far-out thin shell: xfab.laue runs it on the first cell of each setting only (C14 compares the modules)
    orc = G.Oracle(g, cell, max(s[1] for s in shells))
    base = "%s:Sg%d/%s:cell=%s" % (case["mod"], no, cc, cell)
    ortho = all(x == 90 for x in cell[3:])
    for (t0, t1) in shells:
        smin, smax = orc.bound(t0), orc.bound(t1)
        ref = orc.allowed(smin, smax)
        key = "%s:shell=(%.6f,%.6f]" % (base, smin, smax)
        np.random.seed(0)
        H, err = G.call_lib(mod.genhkl_all, cell, smin, smax, sgno=no, cell_choice="".join(list(cc)))  # a string built at run time, not a literal
        if err:
            r.evals += 1
            r.violation(key + ":exception", "genhkl_all raised on a valid input", None, err)
            continue
        rows, integral = G.as_int_rows(H)
        compare_all(r, key, rows, integral, ref, orc.family)
        nontriv = len(ref) > 0 and (bool(orc.ext.any()) or not ortho)
        r.nontrivial.add(key if nontriv else "Sg%d/%s:plain" % (no, cc))
        r.extra.setdefault("max_index", 0)
        r.extra["max_index"] = max(r.extra["max_index"], orc.max_index(smin, smax))
        r.extra["reflections"] = r.extra.get("reflections", 0) + len(ref)
        r.states += 1
    if case.get("sweep"):
        r.transitions = r.evals
        return r
    if case.get("cellkinds"):
        t0, t1 = shells[1]
        smin, smax = orc.bound(t0), orc.bound(t1)
        ref = orc.allowed(smin, smax)
        for kind, obj, prec in alph.kinds(cell):
            for form in ("positional", "keywords"):
                key = "%s:cell as %s:%s:shell=(%.6f,%.6f]" % (base, kind, form, smin, smax)
                if form == "positional":
                    H, err = G.call_lib(mod.genhkl_all, obj, smin, smax, None, no, cc)
                else:
                    H, err = G.call_lib(mod.genhkl_all, unit_cell=obj, sintlmin=smin, sintlmax=smax, sgno=no, cell_choice=cc, output_stl=True)
                if err:
                    r.violation(key + ":exception", "genhkl_all raised for a cell given as %s" % kind, None, err)
                    continue
                rows, integral = G.as_int_rows(H)
                compare_all(r, key, rows, integral, ref, orc.family, "genhkl_all for a cell given as %s" % kind)
                r.transitions += 1
        return r
    # shell bounds 5e-9 (relative) away from a lattice-point value - the closest the property's quantifier allows: the family at
    # u must be IN for sintlmin = u(1-5e-9) and OUT for u(1+5e-9); the family at v OUT for sintlmax = v(1-5e-9) and IN for v(1+5e-9)
    hint = max(s_[1] for s_ in shells)  # the oracle's index box is complete up to this value only: tight limits are chosen below it
    vals = np.unique(np.round(orc.s[(~orc.ext) & (orc.s <= 0.999 * hint)], 10))
    if len(vals) > 8:
        u, v = float(vals[len(vals) // 8]), float(vals[len(vals) // 3])
        for smin, smax in ((u * (1 - 5e-9), v * (1 - 5e-9)), (u * (1 + 5e-9), v * (1 + 5e-9))):
            ref = orc.allowed(smin, smax)
            key = "%s:tight-shell=(%.12g,%.12g]" % (base, smin, smax)
            np.random.seed(0)
            H, err = G.call_lib(mod.genhkl_all, cell, smin, smax, sgno=no, cell_choice=cc)
            if err:
                r.violation(key + ":exception", "genhkl_all raised", None, err)
                continue
            rows, integral = G.as_int_rows(H)
            compare_all(r, key, rows, integral, ref, orc.family)
            r.states += 1
    # independence of numpy's global random state (second shell: moderate size)
    t0, t1 = shells[1]
    smin, smax = orc.bound(t0), orc.bound(t1)
    ref = orc.allowed(smin, smax)
    key = "%s:shell=(%.6f,%.6f]" % (base, smin, smax)
    outs = []
    for sd in (0, 1, case["seed"] % (2 ** 32), 12345):
        np.random.seed(sd)
        H, err = G.call_lib(mod.genhkl_all, cell, smin, smax, sgno=no, cell_choice=cc, output_stl=True)
        if err:
            r.violation(key + ":seed%d:exception" % sd, "genhkl_all raised", None, err)
            continue
        rows, integral = G.as_int_rows(H)
        compare_all(r, key + ":seed%d" % sd, rows, integral, ref, orc.family)
        outs.append(sorted(rows))
        r.transitions += 1
    r.require(all(o == outs[0] for o in outs), key + ":rng", "result independent of numpy's global random state")
    # every way of asking for the group (oracles.group_forms: number / name / spaced name / R names with suffix or with an explicit
    # cell_choice), as keywords and positionally (small shell)
    if case["names"]:
        t0, t1 = SMALL[tier]
        smin, smax = orc.bound(t0), orc.bound(t1)
        ref = orc.allowed(smin, smax)
        for lab, kw in O.group_forms(no, cc):
            for pos in (False, True):
                key = "%s:form=%s%s:shell=(%.6f,%.6f]" % (base, lab, ":positional" if pos else "", smin, smax)
                np.random.seed(0)
                if pos:
                    H, err = G.call_lib(mod.genhkl_all, cell, smin, smax, kw.get("sgname"), kw.get("sgno"), kw.get("cell_choice", "standard"))
                else:
                    H, err = G.call_lib(mod.genhkl_all, cell, smin, smax, **kw)
                if err:
                    r.violation(key + ":exception", "genhkl_all(%s) raised" % lab, None, err)
                    continue
                rows, integral = G.as_int_rows(H)
                compare_all(r, key, rows, integral, ref, orc.family, "genhkl_all asked by " + lab)
                r.transitions += 1
        for nm in case["names"]:
            key = "%s:name=%s:shell=(%.6f,%.6f]" % (base, nm, smin, smax)
            np.random.seed(0)
            try:
                # history probe: call, the caller edits the returned array in place, call again with the same arguments
                twice(r, key, mod.genhkl_all, cell, smin, smax, sgname=nm, output_stl=True, _sort_rows=True)
            except Exception:
                pass
            np.random.seed(0)
            H, err = G.call_lib(mod.genhkl_all, cell, smin, smax, sgname=nm)
            if err:
                r.violation(key + ":exception", "genhkl_all(sgname=...) raised", None, err)
                continue
            rows, integral = G.as_int_rows(H)
            compare_all(r, key, rows, integral, ref, orc.family, "genhkl_all by name")
            H2, err = G.call_lib(mod.genhkl_all, cell, smin, smax, sgname=" ".join(nm).upper())
            r.require(err is None and sorted(G.as_int_rows(H2)[0]) == sorted(rows), key + ":spelling", "name spelling does not matter")
            r.transitions += 2
    # rhombohedral vs hexagonal setting (obverse transformation)
    if cc == "rhombohedral":
        hexcell = G.rhomb_to_hex(cell)
        t0, t1 = shells[1]
        smin, smax = orc.bound(t0), orc.bound(t1)
        ref = orc.allowed(smin, smax)
        key = "%s:hex-vs-rhomb:shell=(%.6f,%.6f]" % (base, smin, smax)
        np.random.seed(0)
        Hh, err = G.call_lib(mod.genhkl_all, hexcell, smin, smax, sgno=no, cell_choice="standard")
        if err:
            r.violation(key + ":exception", "genhkl_all (hexagonal setting) raised", None, err)
        else:
            rows_h, integral = G.as_int_rows(Hh)
            want = {G.obverse(h): s for h, s in ref.items()}
            gh = sg.sg(sgno=no, cell_choice="standard")
            orch_fam = lambda h: O.laue_orbit(G.point_group(gh), h)
            compare_all(r, key, rows_h, integral, want, orch_fam, "hexagonal-setting list = obverse image of the rhombohedral list")
            r.transitions += 1
    if not r.transitions:
        r.transitions = r.evals
    return r


def post(tier, seed, cases, results):
    mi = {}
    tot = 0
    for c, res in zip(cases, results):
        k = "%d/%s" % (c["no"], c["cc"])
        mi[k] = max(mi.get(k, 0), res["extra"].get("max_index", 0))
        tot += res["extra"].get("reflections", 0)
    return {"min_over_settings_of_max_index_reached": min(mi.values()), "max_index_reached": max(mi.values()), "oracle_reflections_compared": tot}


def alphabet(tier):
    return {"settings": 237, "shell_targets": SHELLS[tier], "small_shell_for_names": SMALL[tier], "rng_seeds": [0, 1, "VERIF_SEED", 12345]}


def samples(cases):
    return [cases[0], cases[len(cases) // 2], cases[-1]]
