"""C06 - genhkl_unique lists one reflection per Laue family, sorted by true sin(theta)/lambda."""
from __future__ import annotations

import numpy as np

from .. import alph
from .. import genhkl as G
from .. import oracles as O
from ..core import CaseResult, bind_repo, twice

PROP = "C06"
LEVEL = "exploration"
SECOND_SCHEDULE = 0  # stride of the reverse-order history pass (0 = off, 1 = every case)
RULE = ("same space as C05 with complementary shells: 237 settings x conforming cells x shells x both modules x output_stl True/False; "
        "genhkl_unique rows must lie in pairwise different Laue orbits (point-group rotations and inversion, integer arithmetic), the "
        "set of their orbits must equal the set of orbits of the brute-force allowed list, the union of the orbits must equal "
        "genhkl_all's multiset, both outputs must be sorted by the fourth column, the fourth column must equal the oracle's "
        "sin(theta)/lambda, the 3-column output must equal the first three columns of the 4-column one, nothing at or below sintlmin "
        "or above sintlmax. distinct_nontrivial = distinct (module, setting, cell, shell) with at least two families.")
ASSUMPTIONS = ["shell bounds are kept away from lattice-point values, so the exclusive/inclusive behaviour exactly at a lattice value is not asserted",
               "Laue orbit = orbit under the first nuniq rotations and their negatives (structure verified by C04)"]

SHELLS = {"quick": [(0.0, 0.55), (0.25, 0.66), (0.88, 0.95)], "thorough": [(0.0, 0.80), (0.25, 0.66), (0.0, 0.47), (0.37, 0.52), (1.07, 1.14)]}


def cases(tier, seed):
    bind_repo()
    from xfab import sg

    cs = []
    for no, cc in alph.SETTINGS:
        g = sg.sg(sgno=no, cell_choice=cc)
        for ci, cell in enumerate(alph.conforming_cells(g.crystal_system, g.cell_choice, tier)):
            for mod in ("tools", "laue"):
                cs.append({"mod": mod, "no": no, "cc": cc, "cell": cell, "tier": tier, "far": mod == "tools" or ci == 0, "forms": ci == 0})
    for no, cell in ((19, [1012.7, 1187.4, 1365.9, 90.0, 90.0, 90.0]), (2, [1012.7, 1187.4, 1365.9, 82.0, 97.0, 104.0])):
        for mod in ("tools", "laue"):
            cs.append({"mod": mod, "no": no, "cc": "standard", "cell": cell, "tier": tier, "far": False, "big": True})
    # cells typed with whole numbers, in every container / dtype (alph.kinds): one representative group per Laue class / setting
    from .c05 import SWEEP_GROUPS

    for no, cc in SWEEP_GROUPS:
        g = sg.sg(sgno=no, cell_choice=cc)
        for cell in alph.int_cells(g.crystal_system, g.cell_choice):
            for mod in ("tools", "laue"):
                cs.append({"mod": mod, "no": no, "cc": cc, "cell": cell, "tier": tier, "far": False, "cellkinds": True})
    return cs


def same_list(U4, Un, errn, rel=1e-12):
    if errn is not None or Un is None:
        return False
    Un = np.asarray(Un, float)
    if Un.shape != U4.shape:
        return False
    if U4.size == 0:
        return True
    return bool(np.array_equal(Un[:, :3], U4[:, :3])) and bool(np.all(np.abs(Un[:, 3] - U4[:, 3]) <= rel * U4[:, 3]))


def check_case(case):
    import xfab.laue
    import xfab.tools
    from xfab import sg

    mod = {"tools": xfab.tools, "laue": xfab.laue}[case["mod"]]
    r = CaseResult()
    no, cc, cell, tier = case["no"], case["cc"], case["cell"], case["tier"]
    g = sg.sg(sgno=no, cell_choice=cc)
    shells = SHELLS[tier]
    if case.get("big"):
        shells = [(0.0, 0.0045), (0.002, 0.0036)]
    orc = G.Oracle(g, cell, max(s[1] for s in shells))
    Gi = O.recip_metric(cell)
    base = "%s:Sg%d/%s:cell=%s" % (case["mod"], no, cc, cell)
    if case.get("big"):
        pass
    elif case.get("cellkinds"):
        shells = shells[:2]
    elif not case.get("far", True):
        shells = shells[:-1]  # the far-out thin shell is run for xfab.laue on the first cell of each setting only (C14 compares the modules)
    bounds = [(orc.bound(t0), orc.bound(t1)) for (t0, t1) in shells]
    hint = max(s_[1] for s_ in shells)  # the oracle's index box is complete up to this value only: tight limits are chosen below it
    vals = np.unique(np.round(orc.s[(~orc.ext) & (orc.s <= 0.999 * hint)], 10))
    if len(vals) > 8:  # bounds 5e-9 (relative) below / above lattice-point values (see C05)
        u, v = float(vals[len(vals) // 9]), float(vals[len(vals) // 4])
        bounds += [(u * (1 - 5e-9), v * (1 - 5e-9)), (u * (1 + 5e-9), v * (1 + 5e-9))]
    for bi, (smin, smax) in enumerate(bounds):
        ref = orc.allowed(smin, smax)
        key = "%s:shell=(%.12g,%.12g]" % (base, smin, smax)
        np.random.seed(0)
        if bi == len(bounds) - 1:
            try:
                # history probe: call; the caller edits the array it got in place (e.g. turns sintl into d-spacing); call again
                twice(r, key + ":unique", mod.genhkl_unique, cell, smin, smax, sgno=no, cell_choice=cc, output_stl=True)
                twice(r, key + ":unique3", mod.genhkl_unique, cell, smin, smax, sgno=no, cell_choice=cc)
            except Exception:
                pass
        U4, err = G.call_lib(mod.genhkl_unique, cell, smin, smax, sgno=no, cell_choice=cc, output_stl=True)
        if err:
            r.evals += 1
            r.violation(key + ":exception", "genhkl_unique raised on a valid input", None, err)
            continue
        A4, erra = G.call_lib(mod.genhkl_all, cell, smin, smax, sgno=no, cell_choice=cc, output_stl=True)
        if smin > 0.8:  # far-out shell: the 3-column variants are exercised on the other shells
            U3, err3 = (np.asarray(U4, float)[:, :3] if U4 is not None and len(U4) else U4), None
            A3, erra3 = (np.asarray(A4, float)[:, :3] if A4 is not None and len(A4) else A4), None
        else:
            U3, err3 = G.call_lib(mod.genhkl_unique, cell, smin, smax, sgno=no, cell_choice=cc, output_stl=False)
            A3, erra3 = G.call_lib(mod.genhkl_all, cell, smin, smax, sgno=no, cell_choice=cc)
        if err3 or erra or erra3:
            r.violation(key + ":exception", "genhkl_* raised on a valid input", None, err3 or erra or erra3)
            continue
        U4 = np.asarray(U4, float)
        A4 = np.asarray(A4, float)
        urows, uint = G.as_int_rows(U4)
        arows, aint = G.as_int_rows(A4)
        r.require(uint and aint, key + ":integral", "all indices are integers")
        r.require(U4.ndim == 2 and U4.shape[1] == 4 and np.asarray(U3).shape == (len(urows), 3) if len(urows) else True, key + ":shape",
                  "4 columns with output_stl, 3 without")
        if len(urows):
            r.require(np.array_equal(np.asarray(U3, float), U4[:, :3]), key + ":cols", "3-column output = first three columns of the 4-column output")
        if len(arows):
            r.require(np.array_equal(np.asarray(A3, float)[np.lexsort(np.asarray(A3, float).T[::-1])], A4[:, :3][np.lexsort(A4[:, :3].T[::-1])]),
                      key + ":cols-all", "genhkl_all: 3-column output = first three columns of the 4-column output (as multisets)")
        # families (vectorised exact integer arithmetic)
        ukeys = orc.family_keys(np.array(urows, dtype=np.int64).reshape(-1, 3))
        dup = len(set(ukeys.tolist())) != len(ukeys)
        r.require(not dup, key + ":one-per-family", "genhkl_unique rows lie in pairwise different Laue families", None,
                  [urows[i] for i in range(len(urows)) if ukeys[i] in set(ukeys[:i].tolist())][:5] if dup else None)
        refH = np.array(sorted(ref), dtype=np.int64).reshape(-1, 3)
        rkeys = set(orc.family_keys(refH).tolist())
        missing = [orc.decode(k) for k in sorted(rkeys - set(ukeys.tolist()))]
        extra = [urows[i] for i in range(len(urows)) if int(ukeys[i]) not in rkeys]
        reff = rkeys
        r.evals += 1
        if missing or extra:
            r.violation(key + ":families", "genhkl_unique = exactly one member of every Laue family of allowed reflections",
                        {"families": len(reff)}, {"rows": len(urows), "missing_families": missing[:12], "n_missing": len(missing),
                                                  "extra_rows": extra[:6], "n_extra": len(extra)})
        # genhkl_all is the union of the families of genhkl_unique
        if len(urows):
            im = orc.images(np.array(urows, dtype=np.int64)).reshape(-1, 3)
            union = {tuple(x) for x in np.unique(im, axis=0).tolist()}
        else:
            union = set()
        amulti = {}
        for h in arows:
            amulti[h] = amulti.get(h, 0) + 1
        r.require(set(amulti) == union and all(v == 1 for v in amulti.values()), key + ":union", "genhkl_all = union of the families of genhkl_unique, each reflection once",
                  {"union": len(union)}, {"all_rows": len(arows), "distinct": len(amulti), "not_in_union": [h for h in amulti if h not in union][:5],
                                          "missing_from_all": [h for h in union if h not in amulti][:5]})
        # ordering and fourth column
        for nm, M, rows in (("unique", U4, urows), ("all", A4, arows)):
            if len(rows) == 0:
                continue
            col = M[:, 3]
            r.require(bool(np.all(np.diff(col) >= 0)), key + ":sorted-" + nm, "rows ordered by non-decreasing sin(theta)/lambda (%s)" % nm)
            true = np.array([O.stl(Gi, h) for h in rows])
            r.check("stl-column", float(np.max(np.abs(col - true) / true)), 1e-9 / O.gram_det(cell), key + ":stl-" + nm,
                    "fourth column = sin(theta)/lambda of the row's hkl (%s)" % nm)
            r.require(bool(np.all(true > smin) and np.all(true <= smax)), key + ":bounds-" + nm, "sintlmin exclusive, sintlmax inclusive (%s)" % nm,
                      [smin, smax], [float(true.min()), float(true.max())])
            r.require(bool(np.all(np.diff(true) >= -1e-12 * true[1:])), key + ":true-sorted-" + nm, "rows ordered by TRUE sin(theta)/lambda (%s)" % nm)
        # by name, in spellings a user may write (upper case incl. the setting suffix, padded, blanks inside)
        if bi == 0 and case.get("far", True):
            nm = O.setting_names(sg.sgdic)[(no, cc)][-1]
            for sp in (nm.upper(), "  " + nm + " ", " ".join(nm).upper() + "\n", "".join(list(nm.title()))):
                Un, errn = G.call_lib(mod.genhkl_unique, cell, smin, smax, sgname=sp, output_stl=True)
                okn = errn is None and np.asarray(Un).shape == U4.shape and bool(np.array_equal(np.asarray(Un, float), U4))
                r.require(okn, key + ":by-name:%r" % sp, "genhkl_unique by name %r equals the call by number and setting" % sp, None, errn or np.asarray(Un).shape)
        # every way of asking for the group (oracles.group_forms), by keyword and positionally
        if bi == 0 and case.get("forms"):
            for lab, kw in O.group_forms(no, cc):
                Un, errn = G.call_lib(mod.genhkl_unique, cell, smin, smax, output_stl=True, **kw)
                r.require(same_list(U4, Un, errn), key + ":form=" + lab, "genhkl_unique asked by %s equals the call by number and setting" % lab, None, errn or np.asarray(Un).shape)
                Un, errn = G.call_lib(mod.genhkl_unique, cell, smin, smax, kw.get("sgname"), kw.get("sgno"), kw.get("cell_choice", "standard"), True)
                r.require(same_list(U4, Un, errn), key + ":form=" + lab + ":positional", "genhkl_unique asked by %s (positional) equals the call by number and setting" % lab, None,
                          errn or np.asarray(Un).shape)
                r.evals += 2
        if bi == 0 and case.get("cellkinds"):
            for kind, obj, prec in alph.kinds(cell):
                for form in ("positional", "keywords"):
                    if form == "positional":
                        Un, errn = G.call_lib(mod.genhkl_unique, obj, smin, smax, None, no, cc, True)
                    else:
                        Un, errn = G.call_lib(mod.genhkl_unique, unit_cell=obj, sintlmin=smin, sintlmax=smax, sgno=no, cell_choice=cc, output_stl=True)
                    if prec == "single" and errn is None and Un is not None and np.asarray(Un).shape == U4.shape:
                        # float32 cell: ties in sin(theta)/lambda may be ordered differently and another family member chosen;
                        # demanded: the same families, each with the same sin(theta)/lambda to single precision
                        Un = np.asarray(Un, float)
                        kn = orc.family_keys(np.array(G.as_int_rows(Un)[0], dtype=np.int64).reshape(-1, 3))
                        a = dict(zip(kn.tolist(), Un[:, 3].tolist()))
                        b = dict(zip(ukeys.tolist(), U4[:, 3].tolist()))
                        oks = set(a) == set(b) and len(a) == len(kn) and all(abs(a[k_] - b[k_]) <= 1e-5 * b[k_] for k_ in b)
                        r.require(oks, key + ":cell as %s:%s" % (kind, form), "genhkl_unique for a float32 cell: same families, same sin(theta)/lambda to single precision")
                        continue
                    r.require(same_list(U4, Un, errn, 1e-12 if prec == "exact" else 1e-5), key + ":cell as %s:%s" % (kind, form),
                              "genhkl_unique for a cell given as %s equals the result for the float list" % kind, None, errn or np.asarray(Un).shape)
                    r.evals += 1
        if len(reff) >= 2:
            r.nontrivial.add(key)
        r.extra["families"] = r.extra.get("families", 0) + len(reff)
        r.states += 1
    r.transitions = r.evals
    return r


def post(tier, seed, cases, results):
    return {"oracle_families_compared": sum(r["extra"].get("families", 0) for r in results)}


def alphabet(tier):
    return {"settings": 237, "shell_targets": SHELLS[tier], "output_stl": [True, False]}


def samples(cases):
    return [cases[0], cases[len(cases) // 2], cases[-1]]
