"""C07 - structure factors transform correctly under the space-group operations."""
from __future__ import annotations

import math

import numpy as np

from .. import alph
from .. import oracles as O
from ..core import CaseResult, bind_repo

PROP = "C07"
LEVEL = "exploration"
RULE = ("237 settings (every group by name from the harness's Hermann-Mauguin table: compact, padded / upper-case, with blanks between the "
        "symbol elements; R groups in both settings) x 8 atom-list configurations (1 or 2 general-position atoms of different elements, Uiso or "
        "positive-definite Uani incl. exactly / nearly diagonal tensors, occupancies 1 / 0.8 / 0.5, atoms a few 1e-6 from special positions, "
        "coordinates without round digits; quick: four of them alternate between neighbouring groups) + whole-number cells in every container / "
        "dtype x every hkl of the box |h|<=2 (quick) / "
        "|h|<=3 + axial reflections to 8 (thorough) x every operation (R,t) of the group: F(hR) = F(h) exp(-2 pi i h.t); F = 0 for "
        "every reflection the exact rule calls extinct; F(-h) = conj F(h). distinct_nontrivial = distinct (setting, config, "
        "operation index) triples with R != identity plus distinct extinct (setting, hkl) pairs.")
ASSUMPTIONS = ["tolerance = (sum occ*Z*multiplicity) x (1e-9 + 2 pi |h|_1 x 2e-6 if the group has translations that are not multiples of 1/8 "
               "(6-digit thirds/sixths in the table), else 1e-9)", "positions are general (multiplicity = nsymop)",
               "F is computed once per hkl and looked up for the rotated index"]

CONFIGS = [
    ("1 atom Uiso", [("FE", (0.1234, 0.2345, 0.3456), "Uiso", 0.012, 1.0)]),
    ("2 atoms Uani", [("FE", (0.1234, 0.2345, 0.3456), "Uani", (0.010, 0.020, 0.015, 0.003, -0.004, 0.005), 0.8),
                      ("O", (0.41, 0.07, 0.77), "Uani", (0.021, 0.011, 0.017, -0.002, 0.006, 0.001), 1.0)]),
    ("2 atoms Uiso occ .5", [("S", (0.31, 0.62, 0.13), "Uiso", 0.02, 0.5), ("O", (0.41, 0.07, 0.77), "Uiso", 0.008, 1.0)]),
    ("1 atom Uani", [("CU", (0.0721, 0.4113, 0.2907), "Uani", (0.013, 0.009, 0.022, 0.004, 0.002, -0.003), 1.0)]),
    # tensors a shortcut could mistake for "symmetric enough": exactly diagonal with unequal entries, and diagonal to 1e-9
    ("1 atom Uani diagonal", [("FE", (0.1234, 0.2345, 0.3456), "Uani", (0.010, 0.021, 0.033, 0.0, 0.0, 0.0), 1.0)]),
    ("1 atom Uani nearly diagonal", [("O", (0.41, 0.07, 0.77), "Uani", (0.012, 0.027, 0.019, 1e-9, -1e-9, 1e-9), 0.9)]),
    # general positions (multiplicity = nsymop) a few 1e-6 away from special ones: origin / inversion centres, axes and planes through 0, 1/4, 1/2;
    # and coordinates with no round digits
    ("2 atoms near special positions", [("FE", (3e-6, 0.5 - 2e-6, 0.25 + 1e-6), "Uiso", 0.012, 1.0), ("O", (0.25 + 4e-6, 0.25 - 3e-6, 2e-6), "Uiso", 0.02, 0.7)]),
    ("1 atom unround", [("S", (0.123456789012, 0.718281828459, 0.314159265359), "Uani", (0.0123456789, 0.0214365879, 0.0176543219, 0.0031415926, -0.0027182818, 0.0014142135), 0.87654321)]),
]


def hkls(tier):
    if tier == "quick":
        return alph.hkl_box(2)
    out = alph.hkl_box(3)
    for n in range(4, 9):
        out += [(n, 0, 0), (0, n, 0), (0, 0, n), (n, n, 0), (n, 0, n), (0, n, n), (n, -n, 0)]
    return out


def cases(tier, seed):
    bind_repo()
    from xfab import sg

    names = O.setting_names(sg.sgdic)
    cs = []
    for (no, cc) in alph.SETTINGS:
        nm = names[(no, cc)]
        for ci in range(len(CONFIGS)):
            if tier == "quick" and ci in (2, 3, 4, 5) and (no + ci) % 2:
                continue  # quick: the four middle configurations alternate between neighbouring groups
            cs.append({"no": no, "cc": cc, "name": nm[ci % len(nm)], "config": ci, "tier": tier})
        if cc == "rhombohedral" or no in (14, 62, 225):
            # the same group named the way users write it: padded, upper case (incl. the setting suffix), blanks inside
            base = nm[-1]
            for si, sp in enumerate((base + " ", " " + " ".join(base).upper(), base.upper() + "\n", "\t" + base.title())):
                cs.append({"no": no, "cc": cc, "name": sp, "config": 1 + (si % 2) * 2, "tier": tier})
        # the Hermann-Mauguin symbol written with blanks between its elements ('P 3 1 2', 'P 21/c', 'R -3 c R'), from the harness's own table
        cs.append({"no": no, "cc": cc, "name": O.HM[no] + (" R" if cc == "rhombohedral" else ""), "config": no % len(CONFIGS), "tier": tier})
    # cells typed with whole numbers, in every container / dtype; hkl as list / tuple / integer array
    from .c05 import SWEEP_GROUPS

    for no, cc in SWEEP_GROUPS:
        g = sg.sg(sgno=no, cell_choice=cc)
        cell = alph.int_cells(g.crystal_system, g.cell_choice)[0]
        for ki in range(len(alph.kinds(cell))):
            cs.append({"no": no, "cc": cc, "name": names[(no, cc)][-1], "config": (no + ki) % len(CONFIGS), "tier": tier, "cell": cell, "cellkind": ki})
    cs.append({"kind": "history", "tier": tier})
    return cs


HIST_CTX = [("p4", [5.1, 5.1, 7.7, 90., 90., 90.]), ("p222", [5.1, 5.1, 7.7, 90., 90., 90.]), ("p3", [5.1, 5.1, 7.7, 90., 90., 120.]), ("p-1", [5.1, 6.3, 7.7, 82., 97., 104.]),
            ("p4", [6.0, 6.0, 9.1, 90., 90., 90.]), ("p213", [5.1, 5.1, 5.1, 90., 90., 90.])]


def check_history(r):
    """the SAME atom_entry objects are evaluated in one (group, cell) context and then in another: every ordered pair of contexts,
    each pair on fresh atom objects (anything the library hangs on the atoms starts empty), covariance checked in both"""
    from xfab import sg, structure

    spec = CONFIGS[1][1]
    hk = [(1, 0, 0), (0, 1, 1), (1, 2, 1), (2, -1, 1), (0, 0, 2)]
    for i, (n1, c1) in enumerate(HIST_CTX):
        for j, (n2, c2) in enumerate(HIST_CTX):
            atoms = [structure.atom_entry(label="a%d" % k, atomtype=el, pos=list(pos), adp_type=adpt, adp=list(adp), occ=occ, symmulti=None)
                     for k, (el, pos, adpt, adp, occ) in enumerate(spec)]
            for step, (name, cell) in enumerate(((n1, c1), (n2, c2), (n1, c1))):
                g = sg.sg(sgname=name)
                ops = O.exact_ops(g)
                for a in atoms:
                    a.symmulti = g.nsymop
                scale = sum(occ * O.Z[el] for el, _, _, _, occ in spec) * g.nsymop
                loose = not O.dyadic(ops)
                for h in hk:
                    Fh = complex(*structure.StructureFactor(h, cell, name, atoms))
                    for k2, ((R, t), tf) in enumerate(zip(ops, g.trans)):
                        hR = O.row_times(h, R)
                        FR = complex(*structure.StructureFactor(hR, cell, name, atoms))
                        dev = abs(FR - Fh * np.exp(-2j * math.pi * float(np.dot(h, tf))))
                        tol = scale * (1e-9 + (2 * math.pi * sum(abs(x) for x in h) * 2e-6 if loose else 0.0))
                        r.evals += 1
                        if not dev <= tol:
                            r.violation("history:%s%s>%s%s:step%d:h=%s:op%d" % (n1, c1[:3], n2, c2[:3], step, h, k2),
                                        "F(hR) = F(h) exp(-2 pi i h.t) also when the same atom objects were used before with another group / cell", None,
                                        [FR.real, FR.imag], tol, dev)
                r.transitions += 1
            r.nontrivial.add("history:%d>%d" % (i, j))
    r.states = len(HIST_CTX)


def check_case(case):
    from xfab import sg, structure

    r = CaseResult()
    if case.get("kind") == "history":
        check_history(r)
        return r
    name = case["name"]
    g = sg.sg(sgno=case["no"], cell_choice=case["cc"])  # the operations of the group that was ASKED for (C04 checks the tables themselves)
    ops = O.exact_ops(g)
    cell = case.get("cell") or alph.conforming_cells(g.crystal_system, g.cell_choice)[0]
    cell_arg, ftol, hk = cell, 1e-9, (lambda h_: h_)
    if "cellkind" in case:
        ckind, cell_arg, prec = alph.kinds(cell)[case["cellkind"]]
        ftol = 1e-9 if prec == "exact" else 2e-5
        hk = [list, tuple, lambda h_: np.array(h_, dtype=np.int64), lambda h_: np.array(h_, dtype=np.int32), lambda h_: np.array(h_, float)][case["cellkind"] % 5]
        name = name + ":cell as " + ckind
    label, spec = CONFIGS[case["config"]]
    # positions as list (CIFread), float64 ndarray (PDBread) or tuple, by case parity; they must come back unchanged
    pk = [list, lambda p_: np.array(p_, float), tuple][(case["no"] + case["config"]) % 3]
    atoms = [structure.atom_entry(label="a%d" % i, atomtype=el, pos=pk(pos), adp_type=adpt, adp=list(adp) if adpt == "Uani" else adp,
                                  occ=occ, symmulti=g.nsymop) for i, (el, pos, adpt, adp, occ) in enumerate(spec)]
    scale = sum(occ * O.Z[el] for el, _, _, _, occ in spec) * g.nsymop
    loose = not O.dyadic(ops)
    cache = {}

    def Fof(h):
        if h not in cache:
            cache[h] = complex(*structure.StructureFactor(hk(h), cell_arg, case["name"], atoms))
        return cache[h]

    tag = "Sg%d/%s[%s]:%s" % (case["no"], case["cc"], name, label)
    for h in hkls(case["tier"]):
        Fh = Fof(h)
        tol = scale * (ftol + (2 * math.pi * sum(abs(x) for x in h) * 2e-6 if loose else 0.0))
        for j, ((R, t), tf) in enumerate(zip(ops, g.trans)):
            hR = O.row_times(h, R)
            FR = Fof(hR)
            ph = np.exp(-2j * math.pi * float(np.dot(h, tf)))
            dev = abs(FR - Fh * ph)
            r.evals += 1
            r.upd("covariance/scale", dev / scale)
            if not dev <= tol:
                r.violation("%s:h=%s:op%d" % (tag, h, j), "F(hR) = F(h) exp(-2 pi i h.t)", [(Fh * ph).real, (Fh * ph).imag], [FR.real, FR.imag], tol, dev)
            if R != O.IDENT:
                r.nontrivial.add("Sg%d/%s:c%d:op%d" % (case["no"], case["cc"], case["config"], j))
        if O.extinct(ops, h):
            r.check("extinct/scale", abs(Fh) / scale, tol / scale, "%s:h=%s:extinct" % (tag, h), "F = 0 for a reflection extinguished by the group", 0, [Fh.real, Fh.imag])
            r.nontrivial.add("Sg%d/%s:extinct:%s" % (case["no"], case["cc"], h))
        Fm = Fof(tuple(-x for x in h))
        r.check("friedel/scale", abs(Fm - Fh.conjugate()) / scale, ftol, "%s:h=%s:friedel" % (tag, h), "F(-h) = conj F(h) without dispersion",
                [Fh.real, -Fh.imag], [Fm.real, Fm.imag])
    for at, (el, pos, adpt, adp, occ) in zip(atoms, spec):
        r.require([float(x) for x in at.pos] == [float(x) for x in pos], tag + ":atom-pos-unchanged", "StructureFactor leaves the atoms' coordinates as they were",
                  list(pos), [float(x) for x in at.pos])
    r.states = len(cache)
    r.transitions = r.evals
    return r


def alphabet(tier):
    return {"settings": 237, "configs": [c[0] for c in CONFIGS], "hkl": len(hkls(tier))}


def samples(cases):
    return [cases[0], cases[len(cases) // 2], cases[-2], {"config0": CONFIGS[0], "config1": CONFIGS[1]}]
