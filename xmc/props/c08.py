"""C08 - structure factor equals the explicit sum over the unit-cell contents."""
from __future__ import annotations

import itertools
import math
from fractions import Fraction as F

import numpy as np

from .. import alph
from .. import oracles as O
from ..core import CaseResult, bind_repo, variants

PROP = "C08"
LEVEL = "exploration"
SECOND_SCHEDULE = 2  # stride of the reverse-order history pass (0 = off, 1 = every case)
RULE = ("237 settings x conforming cells (oblique ones for triclinic/monoclinic/rhombohedral) x atom lists {two general-position atoms; "
        "up to three special positions per group taken from the rational grid, with the exact orbit size as site multiplicity} x ADP "
        "{none, Uiso, Uani (symmetrised over the site stabiliser for special positions)} x dispersion {absent, full, partially None} x "
        "hkl (box |h|<=1 incl. 000 plus 14 higher indices in quick; box |h|<=2 plus axial to 6 in thorough), StructureFactor against "
        "the P1 expansion written in the harness; plus the metamorphic consequences (lattice shift, occupancy scaling, Uiso vs equivalent "
        "Uani, F(000) at zero displacement). distinct_nontrivial = distinct (setting, cell, atom-set, ADP, dispersion) tuples.")
ASSUMPTIONS = ["which images of a special position coincide is decided on exact rationals; phases use the translations as tabulated",
               "form factors from the nine tabulated numbers (the table itself is C16's subject)", "tolerance 1e-9 x sum(occ x Z x multiplicity), real and imaginary parts separately"]

GRID = [F(0), F(1, 8), F(1, 4), F(1, 3), F(1, 2), F(2, 3), F(3, 4)]
U0 = np.array([[0.010, 0.005, -0.004], [0.005, 0.020, 0.003], [-0.004, 0.003, 0.015]])
DISP_FULL = {"FE": [0.3463, 0.8444], "O": [0.0106, 0.0060]}
DISP_PART = {"FE": [0.3463, 0.8444], "O": None}


HIST_GROUPS = (1, 2, 4, 14, 19, 62, 75, 76, 88, 92, 143, 146, 150, 167, 168, 194, 195, 198, 205, 216, 225, 227)


def hkls(tier):
    if tier == "quick":
        return alph.hkl_box(1, zero=True) + [(2, 1, 0), (1, 2, 3), (-2, 1, 3), (3, -1, 2), (0, 0, 2), (0, 0, 3), (0, 0, 4), (2, 2, 1), (0, 2, 0),
                                             (2, 0, 0), (3, 0, 0), (1, -1, 2), (2, -1, 0), (0, 3, 3)]
    out = alph.hkl_box(2, zero=True)
    for n in range(3, 7):
        out += [(n, 0, 0), (0, n, 0), (0, 0, n), (n, n, 0), (n, -n, n)]
    out += [(1, 2, 3), (-2, 1, 3), (3, -1, 2), (4, -3, 1)]
    return out


def cases(tier, seed):
    bind_repo()
    from xfab import sg

    names = O.setting_names(sg.sgdic)
    cs = []
    for (no, cc) in alph.SETTINGS:
        g = sg.sg(sgno=no, cell_choice=cc)
        cells = alph.conforming_cells(g.crystal_system, g.cell_choice, tier)
        if tier == "quick":
            cells = cells[:1] if g.crystal_system not in ("triclinic", "monoclinic") else [cells[0], cells[2]]
        for ci, cell in enumerate(cells):
            for part in ("general", "special") + (("history",) if ci == 0 and (tier == "thorough" or no in HIST_GROUPS) else ()):
                # general / history: compact names; special positions: the symbol written with blanks between its elements ('P 3 1 2')
                nm = O.HM[no] + (" R" if cc == "rhombohedral" else "") if part == "special" else names[(no, cc)][ci % len(names[(no, cc)])]
                cs.append({"no": no, "cc": cc, "name": nm, "cell": cell, "part": part, "tier": tier})
    # every element of the form-factor table, from hkl = 000 to very high indices (sin(theta)/lambda up to ~6: no limit on hkl is stated), with unround
    # coordinates, in P-1 / P21/c / P1 on oblique cells
    from xfab import atomlib

    els = sorted(atomlib.formfactor, key=lambda e: O.Z.get(e, 999))
    for lo in range(0, len(els), 6):
        cs.append({"no": [2, 14, 1][(lo // 6) % 3], "cc": "standard", "name": ["P -1", "P 21/c", "p1"][(lo // 6) % 3],
                   "cell": [[5.1, 6.3, 7.7, 82.0, 97.0, 104.0], [5.1, 6.3, 7.7, 90.0, 104.0, 90.0], [3.1415926535, 4.6692016091, 5.4365636569, 81.2345678912, 94.8765432198, 102.3456789123]][(lo // 6) % 3],
                   "part": "elements", "els": els[lo:lo + 6], "tier": tier})
    return cs


POSKIND = [list, lambda p_: np.array(p_, float), tuple]


def make_atoms(structure, spec, kind=0):
    # positions as list (what CIFread stores), float64 ndarray (what PDBread stores) or tuple
    return [structure.atom_entry(label="a%d" % i, atomtype=a["el"], pos=POSKIND[(kind + i) % 3](a["pos"]), adp_type=a["adp_type"],
                                 adp=(list(a["adp"]) if a["adp_type"] == "Uani" else a["adp"]), occ=a["occ"], symmulti=a["mult"]) for i, a in enumerate(spec)]


def check_case(case):
    from xfab import atomlib, sg, structure

    r = CaseResult()
    name, cell = case["name"], case["cell"]
    g = sg.sg(sgno=case["no"], cell_choice=case["cc"])  # the group the name DENOTES (harness table oracles.HM), not whatever the name resolves to
    ops = O.exact_ops(g)
    Gi = O.recip_metric(cell)
    astar = np.sqrt(np.diag(Gi))
    H = hkls(case["tier"])
    tag = "Sg%d/%s[%s]:cell=%s" % (case["no"], case["cc"], name, cell)
    ff = atomlib.formfactor

    def compare(spec, disp, label, hk=H):
        atoms = make_atoms(structure, spec, kind=case["no"] + len(label))
        scale = sum(a["occ"] * O.Z[a["el"]] * a["mult"] for a in spec)
        for hi_, h in enumerate(hk):
            if hi_ in (1, len(hk) - 1):
                for at, a in zip(atoms, spec):
                    r.require([float(x) for x in at.pos] == [float(x) for x in a["pos"]], "%s:%s:atom-pos-unchanged" % (tag, label),
                              "StructureFactor leaves the atoms' coordinates as they were", list(a["pos"]), [float(x) for x in at.pos])
            got = complex(*structure.StructureFactor(h, cell, name, atoms, disp))
            ref = O.p1_structure_factor(h, cell, g.rot, g.trans, ops, spec, disp, ff)
            dev = max(abs(got.real - ref.real), abs(got.imag - ref.imag)) / scale
            r.check("F-vs-P1-sum/scale", dev, 1e-9, "%s:%s:h=%s" % (tag, label, h), "StructureFactor = explicit unit-cell sum", [ref.real, ref.imag], [got.real, got.imag])
        r.nontrivial.add("Sg%d/%s:%s:%s" % (case["no"], case["cc"], cell, label))

    def F_of(spec, disp, h):
        return complex(*structure.StructureFactor(h, cell, name, make_atoms(structure, spec), disp))

    if case["part"] == "elements":
        hk = [(0, 0, 0), (1, 0, 0), (2, -1, 3), (7, -8, 5), (0, 12, 0), (33, 2, -5), (-20, 31, 17), (0, 0, 80), (60, -45, 70)]
        for el in case["els"]:
            if el not in O.Z:
                continue
            for adpt, adpv in (("Uiso", 0.0031), (None, None)):
                spec = [dict(el=el, pos=(0.123456789012, 0.718281828459, 0.314159265359), adp_type=adpt, adp=adpv, occ=0.87654321, mult=g.nsymop),
                        dict(el="O", pos=(0.41, 0.07, 0.77), adp_type=adpt, adp=adpv, occ=1.0, mult=g.nsymop)]
                compare(spec, {el: [0.12, 0.34], "O": None} if el != "O" else None, "elements:%s:%s" % (el, adpt), hk=hk)
        r.states = len(hk) * len(case["els"]) * 2
        r.transitions = r.evals
        return r
    if case["part"] == "general":
        uani1 = [0.010, 0.020, 0.015, 0.003, -0.004, 0.005]
        uani2 = [0.021, 0.011, 0.017, -0.002, 0.006, 0.001]
        for adpt, a1, a2 in (("Uiso", 0.012, 0.02), ("Uani", uani1, uani2), (None, None, None)):
            spec = [dict(el="FE", pos=(0.1234, 0.2345, 0.3456), adp_type=adpt, adp=a1, occ=0.8, mult=g.nsymop),
                    dict(el="O", pos=(0.41, 0.07, 0.77), adp_type=adpt, adp=a2, occ=1.0, mult=g.nsymop)]
            disps = [("nodisp", None), ("disp", DISP_FULL), ("partdisp", DISP_PART)] if adpt == "Uiso" else [("disp", DISP_FULL)]
            for dl, disp in disps:
                compare(spec, disp, "general:%s:%s" % (adpt, dl))
        # metamorphic consequences on a short hkl list
        hk = [h for h in H if h != (0, 0, 0)][:6] + [(1, 2, 3), (0, 0, 0)]
        base = [dict(el="FE", pos=(0.1234, 0.2345, 0.3456), adp_type="Uiso", adp=0.012, occ=1.0, mult=g.nsymop)]
        scale = 26.0 * g.nsymop
        for h in hk:
            F0 = F_of(base, DISP_FULL, h)
            sh = [dict(base[0], pos=(0.1234 + 1, 0.2345 - 2, 0.3456 + 3))]
            r.check("lattice-shift/scale", abs(F_of(sh, DISP_FULL, h) - F0) / scale, 1e-9, "%s:shift:h=%s" % (tag, h), "F unchanged by a lattice-vector shift of an atom")
            half = [dict(base[0], occ=0.5)]
            r.check("occupancy/scale", abs(F_of(half, DISP_FULL, h) - 0.5 * F0) / scale, 1e-9, "%s:occ:h=%s" % (tag, h), "F linear in occupancy")
            # the anisotropic tensor that represents the same isotropic motion: U_ij = Uiso cos(a*_i, a*_j)
            C = Gi / np.outer(astar, astar)
            uiso = 0.012
            ueq = [uiso * C[0, 0], uiso * C[1, 1], uiso * C[2, 2], uiso * C[1, 2], uiso * C[0, 2], uiso * C[0, 1]]
            ani = [dict(base[0], adp_type="Uani", adp=ueq)]
            r.check("Uiso=Uani/scale", abs(F_of(ani, DISP_FULL, h) - F0) / scale, 1e-9, "%s:isoani:h=%s" % (tag, h), "Uiso and the equivalent Uani give the same F")
        # occupancy exactly 0 (end point of "linear in occupancy") and very small occupancy
        for occ0 in (0.0, 1e-12):
            with0 = [dict(el="FE", pos=(0.1234, 0.2345, 0.3456), adp_type="Uiso", adp=0.012, occ=0.8, mult=g.nsymop),
                     dict(el="O", pos=(0.41, 0.07, 0.77), adp_type="Uiso", adp=0.02, occ=occ0, mult=g.nsymop)]
            compare(with0, DISP_FULL, "general:occ=%g" % occ0, hk=hk)
        zero = [dict(el="FE", pos=(0.1234, 0.2345, 0.3456), adp_type="Uiso", adp=0.0, occ=0.8, mult=g.nsymop),
                dict(el="O", pos=(0.41, 0.07, 0.77), adp_type=None, adp=None, occ=0.5, mult=g.nsymop)]
        f000 = F_of(zero, None, (0, 0, 0))
        want = g.nsymop * (0.8 * O.formfactor_ref(ff["FE"], 0.0) + 0.5 * O.formfactor_ref(ff["O"], 0.0))
        r.check("F000/scale", abs(f000 - want) / scale, 1e-9, "%s:F000" % tag, "F(000) at zero displacement = occupancy-weighted form-factor sum", want, [f000.real, f000.imag])
        # argument kinds for the cell: all-integer cells as int list / int array / tuple / float32, and ndarray cells under coarse
        # numpy print options after a look-alike cell (environment)
        icell = {"triclinic": [5, 6, 7, 80, 95, 100], "monoclinic": [5, 6, 7, 90, 104, 90], "orthorhombic": [5, 6, 7, 90, 90, 90], "tetragonal": [5, 5, 7, 90, 90, 90],
                 "trigonal": [5, 5, 7, 90, 90, 120], "hexagonal": [5, 5, 7, 90, 90, 120], "cubic": [5, 5, 5, 90, 90, 90]}[g.crystal_system]
        if g.cell_choice == "rhombohedral":
            icell = [5, 5, 5, 75, 75, 75]
        fcell = [float(x) for x in icell]
        spec = [dict(el="FE", pos=(0.1234, 0.2345, 0.3456), adp_type="Uani", adp=uani1, occ=0.8, mult=g.nsymop),
                dict(el="O", pos=(0.41, 0.07, 0.77), adp_type="Uiso", adp=0.02, occ=1.0, mult=g.nsymop)]
        scale2 = sum(a["occ"] * O.Z[a["el"]] * a["mult"] for a in spec)
        old = np.get_printoptions()
        np.set_printoptions(precision=2, suppress=True)
        try:
            near = np.array(fcell) * np.array([1 + 3e-4, 1 + 3e-4, 1 + 3e-4, 1, 1, 1])
            for h in hk[:5]:
                structure.StructureFactor(h, near, name, make_atoms(structure, spec), DISP_FULL)
                ref = O.p1_structure_factor(h, fcell, g.rot, g.trans, ops, spec, DISP_FULL, ff)
                for kn, arg in (("int list", list(icell)), ("int64 array", np.array(icell, dtype=np.int64)), ("tuple", tuple(icell)), ("float64 array", np.array(fcell)),
                                ("float32 array", np.array(fcell, dtype=np.float32))):
                    try:
                        got = complex(*structure.StructureFactor(h, arg, name, make_atoms(structure, spec), DISP_FULL))
                        dv = max(abs(got.real - ref.real), abs(got.imag - ref.imag)) / scale2
                    except Exception as ex:
                        dv = float("inf")
                    r.check("cell-argkind/scale", dv, 1e-5 if kn.startswith("float32") else 1e-9, "%s:cell as %s:h=%s" % (tag, kn, h),
                            "StructureFactor = explicit sum for a cell given as %s" % kn)
            # the same through the general probe: hkl and cell in every kind, positionally and by keyword
            atoms_k = make_atoms(structure, spec)
            dv2 = lambda a, b: max(abs(a[0] - b[0]), abs(a[1] - b[1])) / scale2
            for h in ((1, 2, 3), (0, 0, 2)):
                for pos in (0, 1):
                    variants(r, "%s:StructureFactor:h=%s" % (tag, h), structure.StructureFactor, [list(h), fcell, name, atoms_k, DISP_FULL], pos, 1e-9, 1e-5, dev=dv2)
        finally:
            np.set_printoptions(**old)
        r.states = len(H) * 5 + len(hk) * 3
    elif case["part"] == "history":
        # the SAME atom objects evaluated first in this cell and group, then in other cells / with adp edited in place, then here again
        ctxs = [(name, cell), (name, [x * (1.07 if i < 3 else 1.0) for i, x in enumerate(cell)])]
        other = "p-1" if g.crystal_system != "triclinic" else "p1"
        ctxs.append((other, [5.3, 6.1, 7.9, 81.0, 98.0, 103.0]))
        spec = [dict(el="FE", pos=(0.1234, 0.2345, 0.3456), adp_type="Uani", adp=[0.010, 0.020, 0.015, 0.003, -0.004, 0.005], occ=0.8, mult=g.nsymop),
                dict(el="O", pos=(0.41, 0.07, 0.77), adp_type="Uiso", adp=0.02, occ=1.0, mult=g.nsymop)]
        hk = [(1, 0, 0), (0, 1, 1), (1, 2, 1), (2, -1, 1), (0, 0, 0)]
        for i, j in itertools.product(range(len(ctxs)), repeat=2):
            atoms = make_atoms(structure, spec)
            for step, (nm, cl) in enumerate((ctxs[i], ctxs[j], ctxs[i])):
                gg = sg.sg(sgname=nm)
                oo = O.exact_ops(gg)
                sp = [dict(a, mult=gg.nsymop) for a in spec]
                if step == 2:
                    atoms[0].adp[0] = 0.031  # caller edits the ADP list in place
                    sp[0] = dict(sp[0], adp=[0.031] + list(spec[0]["adp"][1:]))
                for a in atoms:
                    a.symmulti = gg.nsymop
                scale = sum(a["occ"] * O.Z[a["el"]] * a["mult"] for a in sp)
                for h in hk:
                    got = complex(*structure.StructureFactor(h, cl, nm, atoms, DISP_FULL))
                    ref = O.p1_structure_factor(h, cl, gg.rot, gg.trans, oo, sp, DISP_FULL, ff)
                    dev = max(abs(got.real - ref.real), abs(got.imag - ref.imag)) / scale
                    r.check("history-F-vs-P1-sum/scale", dev, 1e-9, "%s:history:%d>%d:step%d:h=%s" % (tag, i, j, step, h),
                            "StructureFactor = explicit sum also when the same atom objects were used before with another cell / group / ADP")
            r.nontrivial.add("Sg%d/%s:history:%d>%d" % (case["no"], case["cc"], i, j))
        r.states = len(ctxs)
    else:
        # up to three special positions with different orbit sizes (first ones in grid order)
        specials = []
        for p in itertools.product(GRID, repeat=3):
            n = len(O.orbit(ops, p))
            if n < g.nsymop and n not in [s[1] for s in specials]:
                specials.append((p, n))
            if len(specials) >= 3:
                break
        beta0 = 2 * math.pi ** 2 * np.outer(astar, astar) * U0
        for p, mult in specials:
            pm = tuple(x % 1 for x in p)
            stab = [np.array(R) for (R, t) in ops if tuple((sum(R[i][k] * p[k] for k in range(3)) + t[i]) % 1 for i in range(3)) == pm]
            beta = sum(S @ beta0 @ S.T for S in stab) / len(stab)
            Us = beta / (2 * math.pi ** 2 * np.outer(astar, astar))
            adp = [Us[0, 0], Us[1, 1], Us[2, 2], Us[1, 2], Us[0, 2], Us[0, 1]]
            pf = tuple(float(x) for x in p)
            for adpt, adpv in (("Uiso", 0.012), ("Uani", adp), (None, None)):
                spec = [dict(el="FE", pos=pf, pos_exact=p, adp_type=adpt, adp=adpv, occ=0.8, mult=mult)]
                compare(spec, DISP_FULL, "special:%s:m%d:%s" % (",".join(map(str, p)), mult, adpt))
        if not specials:
            r.nontrivial.add("Sg%d/%s:no-special-position-on-grid" % (case["no"], case["cc"]))
        r.extra = {"specials": len(specials)}
        r.states = len(H) * 3 * len(specials)
    r.transitions = r.evals
    return r


def alphabet(tier):
    return {"settings": 237, "hkl": len(hkls(tier)), "special_grid": [str(x) for x in GRID]}


def samples(cases):
    return [cases[0], cases[len(cases) // 2], cases[-1]]
