"""C09 - returned (omega, eta) satisfy the diffraction condition; no solution is missed."""
from __future__ import annotations

import itertools
import math

import numpy as np

from .. import alph
from .. import oracles as O
from ..alph import Rx, Ry, Rz
from ..core import CaseResult, variants

PROP = "C09"
LEVEL = "exploration"
RULE = ("directions (primitive integer vectors in [-2,2]^3 / [-3,3]^3) x 2theta list x (chi, wedge) grid incl. both non-zero x the "
        "four solvers x both modules; each returned (omega, eta) is substituted into the diffraction condition under the module's "
        "own rotation matrix; the number of solutions is compared with the harness' own solution of a cos w + b sin w = c (claimed "
        "only when the relative discriminant is beyond 1e-6 of tangency); solver-vs-solver agreement where tilts coincide; "
        "tth/tth2 on cells x hkl x rotations x wavelengths. distinct_nontrivial = distinct (solver, 2theta, chi, wedge, "
        "number of solutions) tuples with at least one tilt non-zero or two solutions.")
ASSUMPTIONS = ["omega range test uses -pi_float <= w <= pi_float (arctan2 may return exactly float -pi, which as a real is > -pi)",
               "the count claim excludes |discriminant| <= 1e-6 (relative), as the property does",
               "laue's solvers are also fed g scaled by 3.7 (they normalise g themselves); tools' solvers get |g| = sin(theta)"]

TTH_Q = [0.5, 2, 10, 30, 60, 90, 120, 150]
TTH_T = TTH_Q + [1, 5, 20, 45, 75, 100, 135, 149.5]
# the last three values are a "refinement" sequence: tilts 2e-5 .. 4e-5 rad apart, called one after the other
SMALL_TILTS = [(6e-5, -4e-5), (1e-6, 0.0), (0.0, 1e-7), (-3e-5, 2e-4), (1e-9, 1e-9), (0.0, -6e-4), (2e-3, 0.0), (-8e-6, -8e-6)]
TILT_Q = [0.0, -0.1, 0.1, -0.5, 0.5, 0.10002, 0.10004]
TILT_T = [0.0, -0.01, 0.01, -0.1, 0.1, -0.3, 0.3, -0.5, 0.5, 0.10002, 0.10004, 1e-6, -3e-5, 1e-3]


def cases(tier, seed):
    cs = []
    tths = TTH_Q if tier == "quick" else TTH_T
    for mod in ("tools", "laue"):
        for t in tths:
            cs.append({"kind": "omega", "mod": mod, "tth": t, "tier": tier})
    cells = alph.coarse_cells("quick")
    step = 6 if tier == "quick" else 1
    for mod in ("tools", "laue"):
        for i in range(0, len(cells), step):
            cs.append({"kind": "tth", "mod": mod, "cell": cells[i], "tier": tier})
    return cs


def target(tth, eta):
    st = math.sin(tth / 2)
    return np.array([-st * st, -math.sin(tth) * math.sin(eta) / 2, math.sin(tth) * math.cos(eta) / 2])


def expected_count(row, g, st):
    """Number of omega solving row . (Rz(w) g) = -st^2, or None close to tangency."""
    a = row[0] * g[0] + row[1] * g[1]
    b = -row[0] * g[1] + row[1] * g[0]
    c = -st * st - row[2] * g[2]
    den = a * a + b * b + c * c
    if den == 0:
        return None
    rel = (a * a + b * b - c * c) / den
    if rel > 1e-6:
        return 2
    if rel < -1e-6:
        return 0
    return None


def circ_dist(a, b):
    return abs((a - b + math.pi) % (2 * math.pi) - math.pi)


def same_set(A, B, tol):
    if len(A) != len(B):
        return False
    B = list(B)
    for a in A:
        j = None
        for i, b in enumerate(B):
            if circ_dist(a, b) <= tol:
                j = i
                break
        if j is None:
            return False
        B.pop(j)
    return True


def check_case(case):
    import xfab.laue
    import xfab.tools

    mod = {"tools": xfab.tools, "laue": xfab.laue}[case["mod"]]
    r = CaseResult()
    tier = case["tier"]
    if case["kind"] == "tth":
        f = 2 * math.pi if case["mod"] == "tools" else 1.0
        cell = case["cell"]
        Gi = O.recip_metric(cell)
        B = O.b_ref(cell, f)
        rots = [R for _, R in alph.quat_rots(1)][:3 if tier == "quick" else 12]
        for hkl in alph.hkl_box(2):
            s = O.stl(Gi, hkl)
            for wl in (0.1, 0.5, 1.54):
                if wl * s >= 0.999:
                    continue
                ref = 2 * math.asin(wl * s)
                key = "tth:%s:%s:%s:%g" % (case["mod"], cell, hkl, wl)
                t1 = float(mod.tth(cell, hkl, wl))
                r.check("tth", abs(t1 - ref) / ref, 1e-9 / O.gram_det(cell) / max(1e-3, 1 - wl * s), key, "tth = 2 asin(lambda stl)", ref, t1)
                for U in rots:
                    gv = U @ B @ np.array(hkl, float)
                    t2 = float(mod.tth2(gv, wl))
                    r.check("tth2", abs(t2 - ref) / ref, 1e-9 / O.gram_det(cell) / max(1e-3, 1 - wl * s), key + ":tth2", "tth2(U.B.hkl) = tth", ref, t2)
                r.nontrivial.add("tth:%s:%g" % (hkl, wl))
        r.states = 1
        return r
    tthd = case["tth"]
    tth = math.radians(tthd)
    st = math.sin(tth / 2)
    tilts = TILT_Q if tier == "quick" else TILT_T
    dirs = alph.directions(2 if tier == "quick" else 3)
    mname = case["mod"]
    scale = 1.0 if mname == "tools" else 3.7
    for d in dirs:
        dv = np.array(d, float)
        g = dv / np.linalg.norm(dv) * st
        gin = g * scale
        base = "%s:tth=%g:g=%s" % (mname, tthd, d)

        def verify(name, om, eta, Rfun, key):
            ok = True
            for o, e in zip(om, eta):
                if not (-math.pi <= o <= math.pi):
                    r.violation(key + ":range", "omega in (-pi, pi]", None, float(o))
                    ok = False
                gt = Rfun(float(o)) @ g
                if e is None:
                    dev = abs(gt[0] + st * st) / st
                else:
                    dev = float(np.max(np.abs(gt - target(tth, float(e))))) / st
                ok &= r.check(name, dev, 1e-9, key + ":cond", "diffraction condition for the returned (omega, eta)", None,
                              {"omega": float(o), "eta": None if e is None else float(e), "dev": dev})
            return ok

        def count(name, n, exp, key, distinct=None):
            if exp is not None:
                r.require(n == exp, key + ":count", "number of solutions (complete answer)", exp, n)
                if exp == 2 and n == 2 and distinct is not None:
                    r.require(circ_dist(distinct[0], distinct[1]) > 1e-9, key + ":distinct", "the two solutions differ", None, list(map(float, distinct)))

        # plain solver
        om0 = list(mod.find_omega(gin, tth))
        key = base + ":find_omega"
        verify("find_omega", om0, [None] * len(om0), Rz, key)
        count("find_omega", len(om0), expected_count((1.0, 0.0, 0.0), g, st), key, om0)
        for wx in tilts:
            for wy in tilts:
                tk = "%s:chi=%g:wedge=%g" % (base, wx, wy)
                Rm = Rx(wx) @ Ry(wy)
                og, eg = mod.find_omega_general(gin, tth, wx, wy)
                verify("find_omega_general", og, eg, lambda o: Rx(wx) @ Ry(wy) @ Rz(o), tk + ":general")
                for o_ in og:  # the property states the condition under the module's own builders: they must BE these matrices
                    r.check("general-matrix", float(np.max(np.abs(np.asarray(mod.form_omega_mat_general(float(o_), wx, wy), float) - Rx(wx) @ Ry(wy) @ Rz(float(o_))))), 1e-12,
                            tk + ":general:module-matrix", "form_omega_mat_general(omega, chi, wedge) = Rx(chi).Ry(wedge).Rz(omega) at the returned omega")
                exp = expected_count(Rm[0], g, st)
                count("find_omega_general", len(og), exp, tk + ":general", og)
                r.require(len(og) == len(eg), tk + ":general:len", "one eta per omega")
                oq, eq = mod.find_omega_quart(gin, tth, wx, wy)
                verify("find_omega_quart", oq, eq, lambda o: (Rx(wx) @ Ry(wy)) @ Rz(o) @ (Rx(wx) @ Ry(wy)).T, tk + ":quart")
                for o_ in oq:
                    r.check("quart-matrix", float(np.max(np.abs(np.asarray(mod.quart_to_omega(math.degrees(float(o_)), wx, wy), float) - Rm @ Rz(float(o_)) @ Rm.T))), 1e-12,
                            tk + ":quart:module-matrix", "quart_to_omega(omega, wx, wy) = P.Rz(omega).P' at the returned omega")
                gp = Rm.T @ g
                expq = expected_count(Rm[0], gp, st)
                # (P Rz P' g)_x = p0 . Rz (P' g): same equation with g' = P' g
                count("find_omega_quart", len(oq), expq, tk + ":quart", oq)
                r.require(len(oq) == len(eq), tk + ":quart:len", "one eta per omega")
                if wx != 0 or wy != 0 or len(og) == 2:
                    r.nontrivial.add("general:%g:%g:%g:%d" % (tthd, wx, wy, len(og)))
                    r.nontrivial.add("quart:%g:%g:%g:%d" % (tthd, wx, wy, len(oq)))
                if wx == 0 and wy == 0:
                    e0 = expected_count((1.0, 0.0, 0.0), g, st)
                    if e0 is not None:
                        r.require(same_set(om0, og, 1e-7) and same_set(om0, oq, 1e-7), tk + ":agree0", "solvers agree at zero tilt",
                                  list(map(float, om0)), [list(map(float, og)), list(map(float, oq))])
                        r.require(same_set(eg, eq, 1e-7), tk + ":agree0:eta", "eta agrees at zero tilt", list(map(float, eg)), list(map(float, eq)))
        # a logarithmic ladder of small tilts (a shortcut "tilt below resolution" would sit between 0 and 1e-3)
        if dirs.index(d) % 4 == 0:
            for wx, wy in SMALL_TILTS:
                tk = "%s:chi=%g:wedge=%g" % (base, wx, wy)
                Rm = Rx(wx) @ Ry(wy)
                og, eg = mod.find_omega_general(gin, tth, wx, wy)
                verify("find_omega_general", og, eg, lambda o: Rx(wx) @ Ry(wy) @ Rz(o), tk + ":general")
                count("find_omega_general", len(og), expected_count(Rm[0], g, st), tk + ":general", og)
                oq, eq = mod.find_omega_quart(gin, tth, wx, wy)
                verify("find_omega_quart", oq, eq, lambda o: Rm @ Rz(o) @ Rm.T, tk + ":quart")
                count("find_omega_quart", len(oq), expected_count(Rm[0], Rm.T @ g, st), tk + ":quart", oq)
                ow, ew = mod.find_omega_wedge(gin, tth, wy)
                verify("find_omega_wedge", list(ow), list(ew), lambda o: Ry(-wy) @ Rz(o), tk + ":wedge")
                count("find_omega_wedge", len(ow), expected_count(Ry(-wy)[0], g, st), tk + ":wedge", list(ow))
                r.nontrivial.add("small:%g:%g:%g" % (tthd, wx, wy))
        for w in tilts:
            tk = "%s:wedge=%g" % (base, w)
            ow, ew = mod.find_omega_wedge(gin, tth, w)
            ow, ew = list(ow), list(ew)
            Rw = lambda o: Ry(-w) @ Rz(o)
            verify("find_omega_wedge", ow, ew, Rw, tk + ":wedge")
            exp = expected_count(Ry(-w)[0], g, st)
            count("find_omega_wedge", len(ow), exp, tk + ":wedge", ow)
            og, eg = mod.find_omega_general(gin, tth, 0.0, -w)
            if exp is not None:
                r.require(same_set(ow, og, 1e-7) and same_set(ew, eg, 1e-7), tk + ":wedge-vs-general", "find_omega_wedge(w) agrees with find_omega_general(0,-w)",
                          [list(map(float, og)), list(map(float, eg))], [list(map(float, ow)), list(map(float, ew))])
            if w == 0 and expected_count((1.0, 0.0, 0.0), g, st) is not None:
                r.require(same_set(om0, ow, 1e-7), tk + ":agree0w", "wedge solver agrees with find_omega at zero wedge", list(map(float, om0)), list(map(float, ow)))
            if w != 0 or len(ow) == 2:
                r.nontrivial.add("wedge:%g:%g:%d" % (tthd, w, len(ow)))
    # near-tangency band: g chosen so that the relative discriminant of the untilted equation is +-1e-5 ... +-1e-2 (the count
    # claim excludes only |rel| <= 1e-6); every solver is run at zero and at small tilts on these vectors
    for delta in (1e-5, -1e-5, 1e-4, -1e-4, 1e-3, -1e-3, 1e-2, -1e-2, 3e-2):
        for phi in (0.3, 2.0, 4.4):
            for sgn in (1.0, -1.0):
                z2 = math.cos(tth / 2) ** 2 - delta
                if not 0 <= z2 <= 1:
                    continue
                z = sgn * math.sqrt(z2)
                rho = math.sqrt(1 - z2)
                g = st * np.array([rho * math.cos(phi), rho * math.sin(phi), z])
                gin = g * scale
                base = "%s:tth=%g:band(delta=%g,phi=%g,z%+d)" % (mname, tthd, delta, phi, int(sgn))
                om0 = list(mod.find_omega(gin, tth))
                key = base + ":find_omega"
                for o in om0:
                    gt = Rz(float(o)) @ g
                    r.check("find_omega", abs(gt[0] + st * st) / st, 1e-9, key + ":cond", "diffraction condition (near tangency)")
                e0 = expected_count((1.0, 0.0, 0.0), g, st)
                if e0 is not None:
                    r.require(len(om0) == e0, key + ":count", "number of solutions (complete answer) near tangency", e0, len(om0))
                for wx, wy in ((0.0, 0.0), (0.01, 0.0), (0.0, -0.01), (0.003, 0.004)):
                    Rm = Rx(wx) @ Ry(wy)
                    tk = "%s:chi=%g:wedge=%g" % (base, wx, wy)
                    og, eg = mod.find_omega_general(gin, tth, wx, wy)
                    eg_ = expected_count(Rm[0], g, st)
                    if eg_ is not None:
                        r.require(len(og) == eg_, tk + ":general:count", "number of solutions near tangency", eg_, len(og))
                    for o, e in zip(og, eg):
                        gt = Rx(wx) @ Ry(wy) @ Rz(float(o)) @ g
                        r.check("find_omega_general", float(np.max(np.abs(gt - target(tth, float(e))))) / st, 1e-9, tk + ":general:cond", "diffraction condition (near tangency)")
                    oq, eq = mod.find_omega_quart(gin, tth, wx, wy)
                    eq_ = expected_count(Rm[0], Rm.T @ g, st)
                    if eq_ is not None:
                        r.require(len(oq) == eq_, tk + ":quart:count", "number of solutions near tangency", eq_, len(oq))
                    for o, e in zip(oq, eq):
                        gt = (Rx(wx) @ Ry(wy)) @ Rz(float(o)) @ (Rx(wx) @ Ry(wy)).T @ g
                        r.check("find_omega_quart", float(np.max(np.abs(gt - target(tth, float(e))))) / st, 1e-9, tk + ":quart:cond", "diffraction condition (near tangency)")
                    if wx == 0:
                        ow, ew = mod.find_omega_wedge(gin, tth, -wy)
                        ew_ = expected_count(Ry(wy)[0], g, st)
                        if ew_ is not None:
                            r.require(len(ow) == ew_, tk + ":wedge:count", "number of solutions near tangency", ew_, len(ow))
                        for o, e in zip(ow, ew):
                            gt = Ry(wy) @ Rz(float(o)) @ g
                            r.check("find_omega_wedge", float(np.max(np.abs(gt - target(tth, float(e))))) / st, 1e-8, tk + ":wedge:cond", "diffraction condition (near tangency)")
                r.nontrivial.add("band:%g:%g:%g" % (tthd, delta, phi))
    # constructed solutions: g is built so that a KNOWN omega diffracts at a known eta, with omega on a ladder of offsets around 0, pi, +-pi/2
    # (where arccos / arcsin formulas lose digits and a rounded cosine bites); each solver must return that omega and satisfy the condition
    for w0 in (0.0, math.pi, -math.pi / 2, math.pi / 2, 2.0):
        for off in (3e-6, -1e-5, 1e-4, -1e-3, 3e-3):
            w = w0 + off
            w = (w + math.pi) % (2 * math.pi) - math.pi
            for eta in (0.3, 2.0, 3.5, 5.5):
                tg = target(tth, eta)
                for sname, wx, wy in (("find_omega", 0.0, 0.0), ("general", 0.1, -0.1), ("general", 0.0, 0.0), ("quart", 0.1, -0.1), ("wedge", 0.0, 0.07)):
                    if sname in ("find_omega", "general"):
                        M = Rx(wx) @ Ry(wy) @ Rz(w)
                    elif sname == "quart":
                        P_ = Rx(wx) @ Ry(wy)
                        M = P_ @ Rz(w) @ P_.T
                    else:
                        M = Ry(-wy) @ Rz(w)
                    g = M.T @ tg
                    key = "%s:tth=%g:constructed(%s,omega=%.9g,eta=%g,tilt=%g,%g)" % (mname, tthd, sname, w, eta, wx, wy)
                    try:
                        if sname == "find_omega":
                            om = [float(x) for x in mod.find_omega(g * scale, tth)]
                            et = [None] * len(om)
                        elif sname == "general":
                            o_, e_ = mod.find_omega_general(g * scale, tth, wx, wy)
                            om, et = [float(x) for x in o_], [float(x) for x in e_]
                        elif sname == "quart":
                            o_, e_ = mod.find_omega_quart(g * scale, tth, wx, wy)
                            om, et = [float(x) for x in o_], [float(x) for x in e_]
                        else:
                            o_, e_ = mod.find_omega_wedge(g * scale, tth, wy)
                            om, et = [float(x) for x in o_], [float(x) for x in e_]
                    except Exception as ex:
                        r.evals += 1
                        r.violation(key + ":exception", "solver raised on a g-vector that diffracts", None, repr(ex))
                        continue
                    r.require(any(circ_dist(o, w) <= 1e-7 for o in om), key + ":recovered", "the constructed omega is among the solutions", w, om)
                    for o, e in zip(om, et):
                        if sname == "quart":
                            Mo = P_ @ Rz(o) @ P_.T
                        elif sname == "wedge":
                            Mo = Ry(-wy) @ Rz(o)
                        else:
                            Mo = Rx(wx) @ Ry(wy) @ Rz(o)
                        gt = Mo @ g
                        dev = abs(gt[0] + st * st) / st if e is None else float(np.max(np.abs(gt - target(tth, e)))) / st
                        r.check("constructed", dev, 1e-9, key + ":cond", "diffraction condition for the returned (omega, eta)", None, {"omega": o, "eta": e, "dev": dev})
                r.nontrivial.add("constructed:%g:%g:%g" % (tthd, w0, off))
    # argument kinds x call forms for the four solvers (also: the caller's g-vector must come back unchanged)
    gk = st * np.array([0.36, -0.48, 0.8])
    for fn_, a_ in ((mod.find_omega, [gk * scale, tth]), (mod.find_omega_general, [gk * scale, tth, 0.1, -0.1]), (mod.find_omega_quart, [gk * scale, tth, 0.1, -0.1]),
                    (mod.find_omega_wedge, [gk * scale, tth, 0.07])):
        def dset(a, b):
            fa = [np.sort(np.asarray(x, float).reshape(-1)) for x in (a if isinstance(a, tuple) else (a,))]
            fb = [np.sort(np.asarray(x, float).reshape(-1)) for x in (b if isinstance(b, tuple) else (b,))]
            if [x.shape for x in fa] != [x.shape for x in fb]:
                return float("inf")
            return max([float(np.max(np.abs(x - y))) if x.size else 0.0 for x, y in zip(fa, fb)] + [0.0])
        for pos in range(len(a_)):
            # no float32 for g in xfab.tools (its assertion demands |g| = sin(theta) to 1e-9) nor for 2theta (the solvers evaluate sin(theta) in the
            # precision of the argument and assert the same identity): inputs that violate the asserted precondition are outside the property
            variants(r, "%s:tth=%g:%s" % (mname, tthd, fn_.__name__), fn_, a_, pos, 1e-9, None if (pos == 1 or (pos == 0 and mname == "tools")) else 1e-3, dev=dset)
    # g given at another length (0.9x, 2 pi x, unit length): xfab.tools may refuse it (AssertionError: nothing returned, nothing
    # claimed) but whatever a solver RETURNS must solve the diffraction condition for g scaled to sin(theta), and be complete
    for d in dirs[:: max(1, len(dirs) // 12)]:
        dv = np.array(d, float)
        g = dv / np.linalg.norm(dv) * st
        for fac in (0.9, 2 * math.pi, 1.0 / st):
            for wx, wy in ((0.0, 0.0), (0.1, -0.1)):
                Rm = Rx(wx) @ Ry(wy)
                for sname, call, Mfun, row, gg in (
                    ("general", lambda: mod.find_omega_general(g * fac, tth, wx, wy), lambda o: Rx(wx) @ Ry(wy) @ Rz(o), Rm[0], g),
                    ("quart", lambda: mod.find_omega_quart(g * fac, tth, wx, wy), lambda o: (Rx(wx) @ Ry(wy)) @ Rz(o) @ (Rx(wx) @ Ry(wy)).T, Rm[0], Rm.T @ g),
                ):
                    key = "%s:tth=%g:g=%s*%.3g:chi=%g:wedge=%g:%s" % (mname, tthd, d, fac, wx, wy, sname)
                    try:
                        om, eta = call()
                    except AssertionError:
                        r.evals += 1
                        continue
                    for o, e in zip(om, eta):
                        gt = Mfun(float(o)) @ g
                        r.check("unscaled-g", float(np.max(np.abs(gt - target(tth, float(e))))) / st, 1e-9, key + ":cond", "diffraction condition for g given at another length")
                    exp = expected_count(row, gg, st)
                    if exp is not None:
                        r.require(len(om) == exp, key + ":count", "number of solutions for g given at another length", exp, len(om))
    # g micro-radians off the rotation axis while theta = |wedge| (then c ~ 0 and the reflection diffracts twice per turn)
    for w in (0.1, -0.1, 0.5):
        tth_w = 2 * abs(w)
        st_w = math.sin(tth_w / 2)
        for delta in (1e-7, 1e-6, 1e-5, 1e-3):
            for phi in (0.4, 3.0):
                for sgn in (1.0, -1.0):
                    g = st_w * np.array([math.sin(delta) * math.cos(phi), math.sin(delta) * math.sin(phi), sgn * math.cos(delta)])
                    key = "%s:near-axis(wedge=%g,delta=%g,phi=%g,z%+d)" % (mname, w, delta, phi, int(sgn))
                    for wx, wy, tagw in ((0.0, w, "general"), (0.0, w, "quart")):
                        Rm = Rx(wx) @ Ry(wy)
                        if tagw == "general":
                            om, eta = mod.find_omega_general(g * scale, tth_w, wx, wy)
                            exp = expected_count(Rm[0], g, st_w)
                            Mf = lambda o: Rx(wx) @ Ry(wy) @ Rz(o)
                        else:
                            om, eta = mod.find_omega_quart(g * scale, tth_w, wx, wy)
                            exp = expected_count(Rm[0], Rm.T @ g, st_w)
                            Mf = lambda o: (Rx(wx) @ Ry(wy)) @ Rz(o) @ (Rx(wx) @ Ry(wy)).T
                        if exp is not None:
                            r.require(len(om) == exp, key + ":" + tagw + ":count", "number of solutions for g almost along the rotation axis", exp, len(om))
                        for o, e in zip(om, eta):
                            gt = Mf(float(o)) @ g
                            r.check("near-axis", float(np.max(np.abs(gt - target(tth_w, float(e))))) / st_w, 1e-8, key + ":" + tagw + ":cond", "diffraction condition for g almost along the axis")
                    ow, ew = mod.find_omega_wedge(g * scale, tth_w, -w)
                    expw = expected_count(Ry(w)[0], g, st_w)
                    if expw is not None:
                        r.require(len(ow) == expw, key + ":wedge:count", "number of solutions for g almost along the rotation axis", expw, len(ow))
    r.states = len(dirs) * (len(tilts) ** 2 + len(tilts) + 1)
    r.transitions = r.states * 2
    return r


def alphabet(tier):
    return {"tth_deg": TTH_Q if tier == "quick" else TTH_T, "tilts_rad": TILT_Q if tier == "quick" else TILT_T,
            "directions": len(alph.directions(2 if tier == "quick" else 3))}


def samples(cases):
    return [cases[0], cases[len(cases) // 3], cases[-1], {"direction_examples": alph.directions(2)[:5]}]
