"""C10 - detector pixel of a reflection lies on its scattered ray on the tilted detector."""
from __future__ import annotations

import itertools
import math

import numpy as np

from ..alph import Rx, Ry, Rz
from ..core import CaseResult, cross_dirty, variants

PROP = "C10"
LEVEL = "exploration"
RULE = ("2theta {0.5,5,20,45,60} deg (+ 5 more in thorough) x eta every 30 (15) deg x tilts {-0.3,0,0.3}^3 ({-0.3,-0.1,0,0.1,0.3}^3) x distance "
        "{10,135,1000} x pixel sizes {(0.01,0.01),(0.0936,0.0962),(0.5,0.3)} x grain offsets {0,(2,-2,1),(-1.5,0.5,-2)} x 2 beam centres x "
        "2 wavelengths: det_coor (from the g-vector) against det_coor2 (from 2theta, eta); detector_to_lab of the pixel must lie on the ray "
        "p + t v, t > 0, v = (cos 2theta, -sin 2theta sin eta, sin 2theta cos eta); det_v equals v; the tilt matrix is checked against "
        "Rx.Ry.Rz; an independent ray/plane intersection gives the pixel. distinct_nontrivial = distinct (2theta, eta, tilt, distance, "
        "pixel size, offset) tuples with a non-zero tilt or offset.")
ASSUMPTIONS = ["g-vector in the tools convention Gt = (2 pi / lambda)(v - x) as det_coor's formula demands",
               "tolerance 1e-11 x distance (positions) and 1e-11 x distance/pixel size (pixels): observed noise is 1e-14, and a tilt of 3e-5 rad ignored "
               "by a fast path moves the pixel by only ~1e-9 of that scale at 2theta = 0.5 deg"]


def grids(tier):
    # tilt alphabet: large tilts, zero, and a band of tiny tilts (cos(tilt) = 1 to within 1e-8 for |tilt| < 1.4e-4)
    # ... and micro-steps at a large tilt (0.3 -> 0.300001): consecutive calls whose tilt matrices are np.allclose
    if tier == "quick":
        return [0.5, 5, 20, 45, 60], [0, 30, 75, 120, 165, 210, 255, 300], [-0.3, 0.0, 0.3, 0.300001, 1e-4, -3e-5]
    return [0.5, 1, 5, 10, 20, 30, 45, 55, 60, 0.51], list(range(0, 360, 15)), [-0.3, -0.1, 0.0, 0.1, 0.3, 0.300001, 1e-4, -3e-5, 1e-6]


def cases(tier, seed):
    tths, etas, tilts = grids(tier)
    cs = []
    for tth in tths:
        for tx in tilts:
            cs.append({"tth": tth, "tx": tx, "tier": tier})
    return cs


def check_case(case):
    from xfab import detector, tools

    r = CaseResult()
    tths, etas, tilts = grids(case["tier"])
    tthd = case["tth"]
    tth = math.radians(tthd)
    tx = case["tx"]
    dists = [10.0, 135.5, 1000.0]
    pix = [(0.01, 0.01), (0.0936, 0.0962), (0.5, 0.3)]
    offs = [(0.0, 0.0, 0.0), (2.0, -2.0, 1.0), (-1.5, 0.5, -2.0), (0, 0, 0), (2, -2, 1),  # the last two: Python ints
            (0.0, 1.0, -0.5), (1.5, 0.0, 0.8), (0.0, 0.0, 2.0), (-0.0, 2.0, 0)]  # exact zeros mixed with non-zero coordinates, a signed zero
    centres = [(521.5, -31.25), (0.0, 1024.0)]
    for etad, ty, tz in itertools.product(etas, tilts, tilts):
        eta = math.radians(etad)
        v = np.array([math.cos(tth), -math.sin(tth) * math.sin(eta), math.sin(tth) * math.cos(eta)])
        R = np.asarray(tools.detect_tilt(tx, ty, tz), float)
        Rref = Rx(tx) @ Ry(ty) @ Rz(tz)
        r.check("tilt", float(np.max(np.abs(R - Rref))), 1e-12, "tilt(%g,%g,%g)" % (tx, ty, tz), "detect_tilt = Rx.Ry.Rz")
        for L, (py, pz), off, (yc, zc) in itertools.product(dists, pix, offs, centres):
            key = "tth=%g:eta=%g:tilt=(%g,%g,%g):L=%g:pix=(%g,%g):off=%s:c=(%g,%g)" % (tthd, etad, tx, ty, tz, L, py, pz, off, yc, zc)
            p = np.array(off)
            d2 = detector.det_coor2(tth, eta, L, py, pz, yc, zc, R, *off)
            scale = L / min(py, pz)
            for wl in (0.5, 0.17):
                Gt = 2 * math.pi / wl * (v - np.array([1.0, 0, 0]))
                d1 = detector.det_coor(Gt, math.cos(tth), wl, L, py, pz, yc, zc, R, *off)
                r.check("det_coor=det_coor2", max(abs(d1[0] - d2[0]), abs(d1[1] - d2[1])) / scale, 1e-9, key + ":wl=%g:same-pixel" % wl,
                        "det_coor and det_coor2 give the same pixel for the same ray", d2, d1)
                dv = np.asarray(detector.det_v(Gt, math.cos(tth), wl, L, py, pz, yc, zc, R, *off), float)
                r.check("det_v", float(np.max(np.abs(dv - v))), 1e-12, key + ":wl=%g:det_v" % wl, "det_v = scattered direction", v, dv)
            lab = np.array(detector.detector_to_lab(d2[0], d2[1], L, py, pz, yc, zc, R), float)
            w = lab - p
            t = float(w @ v)
            perp = float(np.linalg.norm(w - t * v))
            r.check("on-ray", perp / L, 1e-11, key + ":on-ray", "detector_to_lab(pixel) lies on the ray from the grain along v", None, {"lab": lab, "perp": perp})
            r.require(t > 0, key + ":forward", "the point lies in front of the grain (t > 0)", "> 0", t)
            # independent ray/plane intersection: detector plane through (L,0,0) spanned by R[:,1], R[:,2]
            nrm = R[:, 0]
            tt = float(nrm @ (np.array([L, 0, 0]) - p)) / float(nrm @ v)
            hit = p + tt * v - np.array([L, 0, 0])
            ref = [float(R[:, 1] @ hit) / py + yc, float(R[:, 2] @ hit) / pz + zc]
            r.check("pixel-ref", max(abs(d2[0] - ref[0]), abs(d2[1] - ref[1])) / scale, 1e-11, key + ":pixel", "pixel = ray/plane intersection in detector coordinates", ref, d2)
            if tx or ty or tz or any(off):
                r.nontrivial.add(key.rsplit(":c=", 1)[0])
            r.states += 1
    # argument kinds x call forms (positional / every argument by its documented name) on two rays of this case: the g-vector and the
    # tilt matrix in every container / layout, every scalar as int / numpy scalar where it is a whole number, float32
    for etad, ty, tz in ((etas[1], tilts[0], tilts[2]), (etas[3], 0.0, 0.0)):
        eta = math.radians(etad)
        v = np.array([math.cos(tth), -math.sin(tth) * math.sin(eta), math.sin(tth) * math.cos(eta)])
        R = Rx(tx) @ Ry(ty) @ Rz(tz)
        Gt = 2 * math.pi / 0.5 * (v - np.array([1.0, 0, 0]))
        a2 = [tth, eta, 135.0, 0.5, 0.25, 512.0, -31.0, R, 2.0, -2.0, 1.0]
        a1 = [Gt, math.cos(tth), 0.5, 135.0, 0.5, 0.25, 512.0, -31.0, R, 2.0, -2.0, 1.0]
        key = "tth=%g:eta=%g:tilt=(%g,%g,%g)" % (tthd, etad, tx, ty, tz)
        sc = lambda a, b: float(np.max(np.abs(np.asarray(a, float) - np.asarray(b, float)))) / (135.0 / 0.25)
        # the tilt matrix is indexed R_tilt[i, j]: a numpy array by contract, nested lists / tuples are not accepted by the unchanged library
        nolist = ("list", "tuple", "int list", "int tuple")
        for pos in range(len(a2)):
            variants(r, key + ":det_coor2", detector.det_coor2, a2, pos, 1e-11, 1e-5, dev=sc, skip=nolist if pos == 7 else ())
        for pos in range(len(a1)):
            variants(r, key + ":det_coor", detector.det_coor, a1, pos, 1e-9, 1e-4, dev=sc, skip=nolist if pos == 8 else ())
            variants(r, key + ":det_v", detector.det_v, a1, pos, 1e-9, 1e-4, skip=nolist if pos == 8 else ())
        d2 = detector.det_coor2(*a2)
        a3 = [float(d2[0]), float(d2[1]), 135.0, 0.5, 0.25, 512.0, -31.0, R]
        for pos in range(len(a3)):
            variants(r, key + ":detector_to_lab", detector.detector_to_lab, a3, pos, 1e-11, 1e-4, skip=nolist if pos == 7 else (), dev=lambda a, b: float(np.max(np.abs(np.asarray(a, float) - np.asarray(b, float)))) / 135.0)
        for pos in range(3):
            variants(r, key + ":detect_tilt", tools.detect_tilt, [tx, ty, tz], pos, 1e-12, 1e-6)
        # interaction: one g-vector work array seen by one function for one reflection, refilled in place, then seen by another function
        eta2 = eta + 1.3
        v2 = np.array([math.cos(tth), -math.sin(tth) * math.sin(eta2), math.sin(tth) * math.cos(eta2)])
        Gt2 = 2 * math.pi / 0.5 * (v2 - np.array([1.0, 0, 0]))
        rest = a1[1:]
        cross_dirty(r, key + ":Gt-family", [("det_coor", lambda b_: detector.det_coor(b_, *rest)), ("det_v", lambda b_: detector.det_v(b_, *rest)),
                                           ("tth2", lambda b_: tools.tth2(b_, 0.5))], Gt2, Gt)
    r.transitions = r.evals
    return r


def alphabet(tier):
    t, e, ti = grids(tier)
    return {"tth": t, "etas": len(e), "tilt_values": ti}


def samples(cases):
    return [cases[0], cases[len(cases) // 2], cases[-1]]
