"""C11 - detector orientation flips are exact bijections, the same for pixels and images."""
from __future__ import annotations

import itertools
import math

import numpy as np

from ..core import CaseResult, variants

PROP = "C11"
LEVEL = "model_checking"
RULE = ("all 81 orientation matrices over {-1,0,1}^4 x the four functions (accept / ValueError); the 8 valid ones x every image "
        "shape 1..8 x 1..8 x every pixel (forward, inverse, pixel map against image map, both round trips, half-integer "
        "coordinates); large non-square shapes on corners, edges and a stride grid; (dety,detz) <-> (eta,radius) on an eta x "
        "radius x centre product and back from a grid of pixel positions. distinct_nontrivial = distinct (orientation, shape) "
        "pairs with a non-square shape or a non-identity orientation, plus distinct (eta, radius) pairs.")
ASSUMPTIONS = ["sizes are passed as detz_size = extent along x and dety_size = extent along y (the convention stated in the property)",
               "radius alphabet starts at 1 + 2^-20: at exactly 1.0 the recomputed radius is 1 - 1e-16 and the documented radpix < 1 branch applies"]

VALID = [(1, 0, 0, 1), (-1, 0, 0, 1), (1, 0, 0, -1), (-1, 0, 0, -1), (0, 1, 1, 0), (0, -1, -1, 0), (0, -1, 1, 0), (0, 1, -1, 0)]
LARGE = [(487, 195), (195, 487), (1024, 2048), (2048, 1024), (1, 4096), (4096, 1), (3, 1000)]


def cases(tier, seed):
    cs = [{"kind": "reject", "o": list(o)} for o in itertools.product((-1, 0, 1), repeat=4)]
    top = 8 if tier == "quick" else 12
    for o in VALID:
        for nx, ny in itertools.product(range(1, top + 1), repeat=2):
            cs.append({"kind": "small", "o": list(o), "nx": nx, "ny": ny})
    for o in VALID:
        for nx, ny in LARGE:
            cs.append({"kind": "large", "o": list(o), "nx": nx, "ny": ny, "stride": 97 if tier == "quick" else 31})
    centres = [(0.0, 0.0), (1023.5, 1023.5), (-31.25, 521.5)]
    for c in centres:
        cs.append({"kind": "eta", "centre": list(c), "tier": tier})
    return cs


def expected_index(o, nx, ny, x, y):
    """Reference model of trans_orientation written as index arithmetic.
    raw image img[x,y], shape (nx,ny).  Output t[dety,detz]."""
    o11, o12, o21, o22 = o
    if abs(o11) == 1:
        # transpose first: a[i,j] = img[j,i], shape (ny,nx); o11=-1 -> fliplr (second index), o22=-1 -> flipud (first index)
        i, j = y, x
        if o11 == -1:
            j = nx - 1 - j
        if o22 == -1:
            i = ny - 1 - i
        return (i, j), (ny, nx)
    # no transpose: t[i,j] = img[i,j] with o12=-1 -> fliplr (second index), o21=-1 -> flipud (first index)
    i, j = x, y
    if o12 == -1:
        j = ny - 1 - j
    if o21 == -1:
        i = nx - 1 - i
    return (i, j), (nx, ny)


def check_pixels(r, det, o, nx, ny, pix, img, t, tag, full):
    for x, y in pix:
        key = "%s:px%d,%d" % (tag, x, y)
        d = det.xy_to_detyz([x, y], *o, dety_size=ny, detz_size=nx)
        dy, dz = float(d[0]), float(d[1])
        (ei, ej), shp = expected_index(o, nx, ny, x, y)
        r.require(tuple(t.shape) == shp, tag + ":shape", "shape of the transformed image", shp, t.shape)
        ok = dy == int(dy) and dz == int(dz) and 0 <= dy < t.shape[0] and 0 <= dz < t.shape[1]
        r.require(ok and (int(dy), int(dz)) == (ei, ej), key + ":index", "xy_to_detyz gives the reference index", [ei, ej], [dy, dz])
        r.require(ok and t[int(dy), int(dz)] == img[x, y], key + ":map", "xy_to_detyz(x,y) indexes the value trans_orientation stored for raw pixel (x,y)",
                  int(img[x, y]), int(t[int(dy), int(dz)]) if ok else [dy, dz])
        b = det.detyz_to_xy([dy, dz], *o, dety_size=ny, detz_size=nx)
        r.require(float(b[0]) == x and float(b[1]) == y, key + ":rt", "detyz_to_xy(xy_to_detyz(p)) = p", [x, y], [float(b[0]), float(b[1])])
        # the other direction: start from the (dety,detz) index of the reference model
        b2 = det.detyz_to_xy([ei, ej], *o, dety_size=ny, detz_size=nx)
        d2 = det.xy_to_detyz([float(b2[0]), float(b2[1])], *o, dety_size=ny, detz_size=nx)
        r.require(float(d2[0]) == ei and float(d2[1]) == ej, key + ":rt2", "xy_to_detyz(detyz_to_xy(q)) = q", [ei, ej], [float(d2[0]), float(d2[1])])
        if full:
            for fx, fy in ((0.5, 0.25), (-0.5, 0.0)):
                p = [x + fx, y + fy]
                dd = det.xy_to_detyz(p, *o, dety_size=ny, detz_size=nx)
                bb = det.detyz_to_xy(dd, *o, dety_size=ny, detz_size=nx)
                r.check("real-rt", max(abs(float(bb[0]) - p[0]), abs(float(bb[1]) - p[1])), 1e-9, key + ":real%g" % fx,
                        "round trip on real-valued coordinates", p, [float(bb[0]), float(bb[1])])
                # real coordinates move consistently with the integer map (affine map with the same linear part)
                r.check("real-affine", max(abs(float(dd[0]) - dy - (float(det.xy_to_detyz([fx, fy], *o, dety_size=ny, detz_size=nx)[0])
                                                                    - float(det.xy_to_detyz([0, 0], *o, dety_size=ny, detz_size=nx)[0]))),
                                           abs(float(dd[1]) - dz - (float(det.xy_to_detyz([fx, fy], *o, dety_size=ny, detz_size=nx)[1])
                                                                    - float(det.xy_to_detyz([0, 0], *o, dety_size=ny, detz_size=nx)[1])))), 1e-9,
                        key + ":affine%g" % fx, "pixel map is affine")


def check_case(case):
    from xfab import detector as det

    r = CaseResult()
    k = case["kind"]
    if k == "reject":
        o = tuple(case["o"])
        img = np.arange(6).reshape(2, 3)
        calls = {"trans_orientation": lambda: det.trans_orientation(img, *o), "trans_orientation_inv": lambda: det.trans_orientation(img, *o, "inverse"),
                 "image_flipping": lambda: det.image_flipping(img, *o), "image_flipping_inv": lambda: det.image_flipping(img, *o, "inverse"),
                 "detyz_to_xy": lambda: det.detyz_to_xy([0, 0], *o, 3, 2), "xy_to_detyz": lambda: det.xy_to_detyz([0, 0], *o, 3, 2)}
        import xfab

        for switch in (True, False):  # environment: the input-check switch of xfab.checks must not govern this validation
            xfab.CHECKS.activated = switch
            try:
                for name, fn in calls.items():
                    try:
                        fn()
                        out = "accepted"
                    except ValueError:
                        out = "ValueError"
                    except Exception as ex:
                        out = repr(ex)
                    want = "accepted" if o in VALID else "ValueError"
                    r.require(out == want, "o=%s:%s%s" % (o, name, "" if switch else ":CHECKS-off"),
                              "orientation matrix accepted iff it is one of the eight valid ones (CHECKS.activated = %s)" % switch, want, out)
                    r.transitions += 1
            finally:
                xfab.CHECKS.activated = True
        r.states = 1
        if o in VALID:
            r.nontrivial.add("valid%s" % (o,))
        return r
    if k in ("small", "large"):
        o = tuple(case["o"])
        nx, ny = case["nx"], case["ny"]
        tag = "o=%s:%dx%d" % (o, nx, ny)
        img = np.arange(nx * ny).reshape(nx, ny)
        t = det.trans_orientation(img, *o)
        back = det.trans_orientation(t, *o, "inverse")
        r.require(back.shape == img.shape and np.array_equal(back, img), tag + ":trans-inverse", "trans_orientation inverse mode restores the raw image")
        f = det.image_flipping(img, *o)
        fb = det.image_flipping(f, *o, "inverse")
        r.require(fb.shape == img.shape and np.array_equal(fb, img), tag + ":flip-inverse", "image_flipping inverse mode restores the raw image")
        # also: inverse mode followed by forward mode is the identity on detector-frame images
        tt = det.trans_orientation(det.trans_orientation(t, *o, "inverse"), *o)
        r.require(np.array_equal(tt, t), tag + ":trans-inverse2", "forward(inverse(t)) = t")
        ff = det.image_flipping(det.image_flipping(f, *o, "inverse"), *o)
        r.require(np.array_equal(ff, f), tag + ":flip-inverse2", "forward(inverse(f)) = f")
        # image_flipping is a bijection on pixel values and keeps/transposes the shape as documented
        want_shape = (nx, ny) if abs(o[0]) == 1 else (ny, nx)
        r.require(f.shape == want_shape and np.array_equal(np.sort(f, axis=None), np.arange(nx * ny)), tag + ":flip-bijection",
                  "image_flipping permutes the pixels", want_shape, f.shape)
        # the whole transformed image equals the reference model (vectorised index arithmetic)
        X, Y = np.meshgrid(np.arange(nx), np.arange(ny), indexing="ij")
        ref = np.empty(expected_index(o, nx, ny, 0, 0)[1], dtype=img.dtype)
        o11, o12, o21, o22 = o
        if abs(o11) == 1:
            I, J = Y.copy(), X.copy()
            if o11 == -1:
                J = nx - 1 - J
            if o22 == -1:
                I = ny - 1 - I
        else:
            I, J = X.copy(), Y.copy()
            if o12 == -1:
                J = ny - 1 - J
            if o21 == -1:
                I = nx - 1 - I
        ref[I, J] = img[X, Y]
        r.require(t.shape == ref.shape and np.array_equal(t, ref), tag + ":trans-model", "trans_orientation equals the index-arithmetic model")
        if k == "small":
            pix = list(itertools.product(range(nx), range(ny)))
        else:
            st = case["stride"]
            xs = sorted(set([0, 1, nx // 2, nx - 2, nx - 1] + list(range(0, nx, st))) & set(range(nx)))
            ys = sorted(set([0, 1, ny // 2, ny - 2, ny - 1] + list(range(0, ny, st))) & set(range(ny)))
            pix = list(itertools.product(xs, ys))
        check_pixels(r, det, o, nx, ny, pix, img, t, tag, full=True)
        # argument kinds and reuse: the same pixel as list, tuple, int array, float array; a float array passed twice
        for x, y in pix[:: max(1, len(pix) // 5)]:
            (ei, ej), _ = expected_index(o, nx, ny, x, y)
            for kn, arg in (("list", [x, y]), ("tuple", (x, y)), ("int64", np.array([x, y], dtype=np.int64)), ("float64", np.array([x, y], float)), ("float32", np.array([x, y], dtype=np.float32))):
                k2 = "%s:px%d,%d:arg=%s" % (tag, x, y, kn)
                snap = np.array(arg, float).copy()
                for rep in (1, 2):
                    d = det.xy_to_detyz(arg, *o, dety_size=ny, detz_size=nx)
                    r.require(float(d[0]) == ei and float(d[1]) == ej, k2 + ":xy_to_detyz:call%d" % rep, "xy_to_detyz on a %s argument (call %d with the same object)" % (kn, rep), [ei, ej], [float(d[0]), float(d[1])])
                r.require(bool(np.array_equal(np.array(arg, float), snap)), k2 + ":xy-arg-unchanged", "xy_to_detyz leaves its argument as it was")
                q = np.array([ei, ej], dtype=np.asarray(arg).dtype) if isinstance(arg, np.ndarray) else type(arg)([ei, ej])
                qsnap = np.array(q, float).copy()
                for rep in (1, 2):
                    b = det.detyz_to_xy(q, *o, dety_size=ny, detz_size=nx)
                    r.require(float(b[0]) == x and float(b[1]) == y, k2 + ":detyz_to_xy:call%d" % rep, "detyz_to_xy on a %s argument (call %d with the same object)" % (kn, rep), [x, y], [float(b[0]), float(b[1])])
                r.require(bool(np.array_equal(np.array(q, float), qsnap)), k2 + ":detyz-arg-unchanged", "detyz_to_xy leaves its argument as it was")
        # argument kinds x call forms: the image in every memory layout / dtype (detector frames are often transposed or Fortran-ordered
        # views), the four orientation entries as ints / numpy ints / floats, sizes likewise, flipdir by keyword; positional and by name
        if k == "small" and (nx, ny) in ((2, 3), (3, 2), (4, 4), (1, 5), (5, 8)):
            for fn_ in (det.trans_orientation, det.image_flipping):
                for mode in ("forward", "inverse"):
                    src = img if mode == "forward" else np.asarray(fn_(img, *o))
                    a = [src.astype(float), o[0], o[1], o[2], o[3], mode]
                    for pos in range(5):
                        # the image is an array by the property's own wording ("raw images indexed img[x,y]"): nested lists / tuples are left out
                        variants(r, "%s:%s(%s)" % (tag, fn_.__name__, mode), fn_, a, pos, 0.0, 0.0, skip=("list", "tuple", "int list", "int tuple") if pos == 0 else ())
            x, y = pix[len(pix) // 2]
            for fn_ in (det.xy_to_detyz, det.detyz_to_xy):
                a = [[float(x), float(y)], o[0], o[1], o[2], o[3], ny, nx]
                for pos in range(7):
                    variants(r, "%s:%s(px%d,%d)" % (tag, fn_.__name__, x, y), fn_, a, pos, 0.0, 1e-6)
        r.states = len(pix)
        r.transitions = 4 * len(pix)
        if nx != ny or o != (1, 0, 0, 1):
            r.nontrivial.add(tag)
        return r
    if k == "eta":
        c = case["centre"]
        etas = list(range(0, 361, 15)) + [0.001, 179.9999, 180.0001, 359.999]
        if case["tier"] == "thorough":
            etas = sorted(set(etas + [x / 2.0 for x in range(0, 721)]))
        rads = [1 + 2.0 ** -20, 1.5, 10.0, 1400.25]
        for eta in etas:
            for rad in rads:
                key = "eta:c=%s:eta=%r:r=%r" % (c, eta, rad)
                p = det.eta_and_radpix_to_detyz(eta, rad, c[0], c[1])
                e2, r2 = det.detyz_to_eta_and_radpix(np.array(p, float), c[0], c[1])
                ref = np.array([c[0] - rad * math.sin(math.radians(eta)), c[1] + rad * math.cos(math.radians(eta))])
                sc = abs(c[0]) + abs(c[1]) + rad
                r.check("eta->pos", float(np.max(np.abs(np.array(p, float) - ref))) / sc, 1e-12, key + ":pos", "eta/radius to position (reference formula)", ref, p)
                r.require(0 <= e2 <= 360, key + ":range", "eta in [0,360]", None, e2)
                r.check("radius-rt", abs(r2 - rad) / sc, 1e-9, key + ":rad", "radius restored", rad, r2)
                de = abs(((e2 - eta) + 180) % 360 - 180)
                r.check("eta-rt", de, 1e-5, key + ":eta", "eta restored (1e-5 deg)", eta, e2)
                p3 = det.eta_and_radpix_to_detyz(e2, r2, c[0], c[1])
                r.check("pos-rt", float(np.max(np.abs(np.array(p3, float) - np.array(p, float)))) / sc, 1e-6, key + ":pos-rt", "position restored", p, p3)
                r.nontrivial.add("eta=%r,r=%r" % (eta, rad))
                # argument kinds for integral eta: Python int and every numpy integer / float width
                if float(eta).is_integer() and rad == 1400.25:
                    for kn, ev in (("int", int(eta)), ("int8", np.int8(int(eta) % 120)), ("int16", np.int16(int(eta))), ("uint16", np.uint16(int(eta))), ("int32", np.int32(int(eta))),
                                   ("int64", np.int64(int(eta))), ("float32", np.float32(eta))):
                        ef = float(ev)
                        pk = det.eta_and_radpix_to_detyz(ev, rad, c[0], c[1])
                        refk = np.array([c[0] - rad * math.sin(math.radians(ef)), c[1] + rad * math.cos(math.radians(ef))])
                        r.check("eta-argkind", float(np.max(np.abs(np.array(pk, float) - refk))) / sc, 1e-6 if kn == "float32" else 1e-12, key + ":arg=" + kn,
                                "eta/radius to position for a %s eta" % kn, refk, pk)
        # back from a grid of pixel positions with radius >= 1
        n = 0
        for dy in (-3, -1, -0.5, 0, 0.5, 1, 2.5, 700):
            for dz in (-700, -2, -1, 0, 1, 1.5, 3):
                if math.hypot(dy, dz) < 1:
                    continue
                q = np.array([c[0] + dy, c[1] + dz], float)
                key = "pix:c=%s:%r,%r" % (c, dy, dz)
                e, rp = det.detyz_to_eta_and_radpix(q, c[0], c[1])
                r.require(0 <= e <= 360, key + ":range", "eta in [0,360]", None, e)
                r.check("radius", abs(rp - math.hypot(dy, dz)), 1e-9 * (1 + rp), key + ":rad", "radius = distance from the centre", math.hypot(dy, dz), rp)
                ref_eta = math.degrees(math.atan2(-dy, dz)) % 360.0
                r.check("eta-ref", abs(((e - ref_eta) + 180) % 360 - 180), 1e-5, key + ":eta", "eta measured from +z towards -y", ref_eta, e)
                q2 = det.eta_and_radpix_to_detyz(e, rp, c[0], c[1])
                r.check("pix-rt", float(np.max(np.abs(np.array(q2, float) - q))), 1e-6 * (abs(c[0]) + abs(c[1]) + rp), key + ":rt", "pixel restored", q, q2)
                n += 1
        # positions a ladder of tiny offsets off the beam-centre column / row (eta within 1e-9 .. 1e-4 degrees of 0, 90, 180, 270) at small radius:
        # the round trip is limited by arccos noise (~1.5e-8 rad x radius), a branch threshold of 1e-6 pixel is 100 times that
        for dlt in (1e-9, -1e-8, 1e-7, -5e-7, 1e-6, -3e-6, 1e-5, 1e-4):
            for base_dy, base_dz in ((0.0, 3.0), (0.0, -2.0), (3.0, 0.0), (-1.5, 0.0)):
                dy, dz = (dlt, base_dz) if base_dy == 0.0 else (base_dy, dlt)
                q = np.array([c[0] + dy, c[1] + dz], float)
                dyq, dzq = float(q[0] - c[0]), float(q[1] - c[1])  # what survives the addition to the centre
                if dyq == 0.0 and dzq == 0.0:
                    continue
                key = "tiny:c=%s:%r,%r" % (c, dy, dz)
                e, rp = det.detyz_to_eta_and_radpix(q, c[0], c[1])
                q2 = np.array(det.eta_and_radpix_to_detyz(e, rp, c[0], c[1]), float)
                lim = 6e-8 * (1 + rp) + 4e-16 * (abs(c[0]) + abs(c[1])) * 8
                r.check("tiny-rt", float(np.max(np.abs(q2 - q))), lim, key + ":rt", "pixel restored for a position a tiny offset off the beam-centre column / row", q, q2)
                ref_eta = math.degrees(math.atan2(-dyq, dzq)) % 360.0
                r.check("tiny-eta", abs(((e - ref_eta) + 180) % 360 - 180), 5e-6, key + ":eta", "eta on the correct side of 0 / 180 (atan2 reference)", ref_eta, e)
        for eta, rad in ((30.0, 10.0), (255.0, 1400.25)):
            a = [eta, rad, c[0], c[1]]
            for pos in range(4):
                variants(r, "eta:c=%s:eta_and_radpix_to_detyz(%g,%g)" % (c, eta, rad), det.eta_and_radpix_to_detyz, a, pos, 1e-12, 1e-4)
            q = [c[0] + 3.0, c[1] - 2.0]
            for pos in range(3):
                variants(r, "eta:c=%s:detyz_to_eta_and_radpix" % (c,), det.detyz_to_eta_and_radpix, [q, c[0], c[1]], pos, 1e-9, 1e-3)
        r.states = len(etas) * len(rads) + n
        r.transitions = 2 * r.states
        return r
    raise ValueError(k)


def alphabet(tier):
    return {"matrices": 81, "valid": 8, "small_shapes": "1..%d x 1..%d" % ((8, 8) if tier == "quick" else (12, 12)), "large_shapes": LARGE}


def samples(cases):
    return [cases[0], cases[81], cases[81 + 8 * 64 - 1] if len(cases) > 81 + 8 * 64 else cases[-5], cases[-4], cases[-1]]
