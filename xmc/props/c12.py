"""C12 - lattice symmetry operators form the right groups; misorientation respects them."""
from __future__ import annotations

import itertools
import math

import numpy as np

from .. import alph
from .. import oracles as O
from ..core import CaseResult, variants

PROP = "C12"
LEVEL = "model_checking"
RULE = ("all 7 crystal systems completely: every operator, every ordered pair (closure), inverses, the pairing identity rot[i].B.perm[i] = B on "
        "every conforming cell of the system's list (B from the harness metric), ROTATIONS against rotations(); Umis on every ordered pair of "
        "the 40 (quick) / 272 (thorough: first 120) integer-quaternion rotations x 7 systems: angle column against an independent "
        "atan2-based rotation angle of U1'.U2.rot[k]', invariance of the sorted angle list under every symmetry operator applied to either "
        "argument, a common rotation from the 24 axis-aligned ones, and swapping; Umis(U,U) contains 0. States = operators and rotation "
        "pairs, transitions = operator compositions and Umis evaluations. distinct_nontrivial = distinct (system, operator pair) + (system, rotation pair).")
ASSUMPTIONS = ["angle comparisons at 1e-4 degrees (arccos conditioning near 0 and 180; observed noise 2e-6)", "orthonormality / closure of rotations() at 1e-12"]

ORDER = {1: 1, 2: 2, 3: 4, 4: 8, 5: 6, 6: 12, 7: 24}
SYSCELLS = {1: ("triclinic", "standard"), 2: ("monoclinic", "standard"), 3: ("orthorhombic", "standard"), 4: ("tetragonal", "standard"),
            5: ("trigonal", "standard"), 6: ("hexagonal", "standard"), 7: ("cubic", "standard")}


def ang(M):
    c = (np.trace(M) - 1) / 2
    s = 0.5 * math.sqrt((M[2, 1] - M[1, 2]) ** 2 + (M[0, 2] - M[2, 0]) ** 2 + (M[1, 0] - M[0, 1]) ** 2)
    return math.degrees(math.atan2(s, c))


def rot_alphabet(tier):
    Q = alph.quat_rots(1 if tier == "quick" else 2)
    return Q if tier == "quick" else Q[:120]


def cases(tier, seed):
    cs = [{"kind": "group", "cs": k, "tier": tier} for k in range(1, 8)]
    R = rot_alphabet(tier)
    for k in range(1, 8):
        for i in range(len(R)):
            cs.append({"kind": "umis", "cs": k, "i": i, "tier": tier})
    cs.append({"kind": "range", "tier": tier})
    return cs


def find(M, L, tol=1e-9):
    for i, X in enumerate(L):
        if np.max(np.abs(M - X)) <= tol:
            return i
    return None


def check_case(case):
    from xfab import symmetry

    r = CaseResult()
    if case["kind"] == "range":
        # informational only (the property says nothing about arguments outside 1..7): recorded, never a violation
        out = {}
        for bad in (0, 8):
            for fn in (symmetry.permutations, symmetry.rotations):
                try:
                    fn(bad)
                    out["%s(%d)" % (fn.__name__, bad)] = "accepted"
                except Exception as ex:
                    out["%s(%d)" % (fn.__name__, bad)] = type(ex).__name__
        r.extra = {"outside_1_7": out}
        r.evals = 1
        r.nontrivial.add("range")
        r.states = 1
        return r
    k = case["cs"]
    perm = np.asarray(symmetry.permutations(k), float)
    rot = np.asarray(symmetry.rotations(k), float)
    if case["kind"] == "group":
        key = "cs%d" % k
        r.require(len(perm) == ORDER[k] and len(rot) == ORDER[k], key + ":order", "group order", ORDER[k], [len(perm), len(rot)])
        # integer unimodular permutations, exact closure
        P = []
        for i, p in enumerate(perm):
            pi = np.rint(p)
            r.require(bool(np.all(pi == p)) and abs(round(float(np.linalg.det(p)))) == 1, key + ":perm%d:unimodular" % i, "integer unimodular matrix", None, p)
            P.append(tuple(tuple(int(x) for x in row) for row in pi))
        r.require(len(set(P)) == len(P), key + ":perm-distinct", "no duplicate permutation")
        r.require(O.IDENT in P, key + ":perm-identity", "identity present")
        S = set(P)
        for a, b in itertools.product(P, repeat=2):
            r.transitions += 1
            r.evals += 1
            if O.matmul(a, b) not in S:
                r.violation(key + ":perm-closure:%s*%s" % (a, b), "permutations closed under multiplication", None, O.matmul(a, b))
            r.nontrivial.add("%s:perm:%s:%s" % (key, P.index(a), P.index(b)))
        for i, a in enumerate(P):
            r.require(any(O.matmul(a, b) == O.IDENT for b in P), key + ":perm%d:inverse" % i, "inverse present")
            r.require(O.det3(a) == 1, key + ":perm%d:det" % i, "permutations of a lattice rotation group have determinant +1", 1, O.det3(a))
        # proper rotations, closure
        for i, m in enumerate(rot):
            r.check("rot-orth", float(np.max(np.abs(m.T @ m - np.eye(3)))), 1e-12, key + ":rot%d:orth" % i, "orthonormal")
            r.check("rot-det", abs(float(np.linalg.det(m)) - 1), 1e-12, key + ":rot%d:det" % i, "determinant +1")
        for i, j in itertools.product(range(len(rot)), repeat=2):
            r.transitions += 1
            r.require(find(rot[i] @ rot[j], rot, 1e-12) is not None, key + ":rot-closure:%d*%d" % (i, j), "rotations closed under multiplication")
        r.require(len({find(m, rot, 1e-12) for m in rot}) == len(rot), key + ":rot-distinct", "no duplicate rotation")
        # the map perm[i] -> rot[i] is compatible with multiplication (anti-homomorphism through the inverse)
        for i, j in itertools.product(range(len(rot)), repeat=2):
            pij = O.matmul(P[i], P[j])
            kk = P.index(pij) if pij in S else None
            if kk is not None:
                r.require(float(np.max(np.abs(rot[j] @ rot[i] - rot[kk]))) <= 1e-12, key + ":pairing-hom:%d,%d" % (i, j),
                          "rot[perm_i.perm_j] = rot_j.rot_i (rot_i = B.inv(perm_i).inv(B))")
        # pairing identity on every conforming cell
        sysname, cc = SYSCELLS[k]
        cells = alph.conforming_cells(sysname, cc, "thorough")
        if k == 5:
            cells = alph.conforming_cells("hexagonal", "standard", "thorough")
        for cell in cells:
            B = O.b_ref(cell)
            for i in range(len(rot)):
                r.check("pairing", float(np.max(np.abs(rot[i] @ B @ perm[i] - B))) / float(np.max(np.abs(B))), 1e-12, key + ":pairing:cell=%s:op%d" % (cell, i),
                        "rot[i].B.perm[i] = B for a conforming cell")
        cached = symmetry.ROTATIONS[k]
        r.require(cached.shape == rot.shape and bool(np.all(cached == rot)), key + ":cached", "ROTATIONS[k] equals rotations(k)")
        # history: the caller edits the arrays it got; later calls (in both orders) must be unaffected
        from ..core import scribble

        p1, r1 = symmetry.permutations(k), symmetry.rotations(k)
        scribble(p1)
        scribble(r1)
        for order in (("rotations", "permutations"), ("permutations", "rotations"), ("rotations", "rotations")):
            for fn in order:
                out = np.asarray(getattr(symmetry, fn)(k), float)
                r.require(bool(np.all(out == (rot if fn == "rotations" else perm))), key + ":again:%s-in-%s" % (fn, "+".join(order)), "%s(k) is the same on every call" % fn)
        r.require(bool(np.all(symmetry.ROTATIONS[k] == rot)), key + ":cached-again", "ROTATIONS[k] still equals rotations(k)")
        r.states = len(perm) + len(rot)
        return r
    # Umis
    R = rot_alphabet(case["tier"])
    q1, U1 = R[case["i"]]
    axis24 = [M for _, M in alph.quat_rots(1) if np.all(np.abs(np.abs(M) - np.rint(np.abs(M))) < 1e-12)]
    for q2, U2 in R:
        key = "cs%d:U1=%s:U2=%s" % (k, q1, q2)
        m = np.asarray(symmetry.Umis(U1, U2, k), float)
        r.require(m.shape == (len(rot), 2) and bool(np.all(m[:, 0] == np.arange(len(rot)))), key + ":shape", "one row per symmetry operation, first column its index")
        ref = np.array([ang(U1.T @ U2 @ rot[j].T) for j in range(len(rot))])
        r.check("angle", float(np.max(np.abs(m[:, 1] - ref))), 1e-4, key + ":angle", "Umis[k,1] = rotation angle of U1'.U2.rot[k]'", ref, m[:, 1])
        # conditioning-aware: the angle comes from an arccos of (trace-1)/2, accurate to ~1e-15/sin(angle) rad, and to sqrt(2e-15) rad at 0 / 180 deg;
        # single-precision storage or arithmetic (6e-8 relative) is 5 decades above that for mid-range angles
        sn = np.sin(np.radians(ref))
        lim = np.degrees(np.minimum(4.5e-7, 1e-13 / np.maximum(sn, 1e-300))) + 1e-11
        worst = float(np.max(np.abs(m[:, 1] - ref) / lim))
        r.check("angle/conditioned-limit", worst, 1.0, key + ":angle-precision", "Umis angles are accurate to double precision (limit scaled by 1/sin(angle))", None,
                {"angles": m[:, 1].tolist(), "ref": ref.tolist()} if worst > 1 else None)
        r.require(bool(np.all((m[:, 1] >= 0) & (m[:, 1] <= 180))), key + ":range", "angles in [0,180]")
        base = np.sort(m[:, 1])
        for j in range(len(rot)):
            for nm, a, b in (("U2.rot", U1, U2 @ rot[j]), ("U1.rot", U1 @ rot[j], U2)):
                d = np.sort(np.asarray(symmetry.Umis(a, b, k), float)[:, 1])
                r.check("equivalent", float(np.max(np.abs(d - base))), 1e-4, key + ":%s%d" % (nm, j), "angle multiset unchanged by a symmetry-equivalent orientation")
        d = np.sort(np.asarray(symmetry.Umis(U2, U1, k), float)[:, 1])
        r.check("swap", float(np.max(np.abs(d - base))), 1e-4, key + ":swap", "angle multiset unchanged by swapping")
        Q = axis24[(case["i"] * 7 + 3) % len(axis24)]
        d = np.sort(np.asarray(symmetry.Umis(Q @ U1, Q @ U2, k), float)[:, 1])
        r.check("common-rotation", float(np.max(np.abs(d - base))), 1e-4, key + ":common", "angle multiset unchanged by a common rotation")
        r.nontrivial.add(key)
        r.states += 1
        r.transitions += 2 * len(rot) + 3
    # small misorientations on top of every symmetry operator (a snap-to-zero tolerance lives here)
    for j in range(len(rot)):
        for ax, epsdeg in (((1, 2, 2), 1e-3), ((0, 0, 1), 2e-3), ((1, 1, 1), 1e-2), ((1, 0, 0), 0.1), ((2, -1, 0), 1.0)):
            a = np.array(ax, float) / math.sqrt(sum(x * x for x in ax))
            th = math.radians(epsdeg)
            K = np.array([[0, -a[2], a[1]], [a[2], 0, -a[0]], [-a[1], a[0], 0]])
            Rs = np.eye(3) + math.sin(th) * K + (1 - math.cos(th)) * (K @ K)
            U2 = U1 @ rot[j] @ Rs
            key = "cs%d:U1=%s:small(op%d,%s,%g)" % (k, q1, j, ax, epsdeg)
            m = np.asarray(symmetry.Umis(U1, U2, k), float)
            ref = np.array([ang(U1.T @ U2 @ rot[i].T) for i in range(len(rot))])
            r.check("small-angle", float(np.max(np.abs(m[:, 1] - ref))), 1e-4, key, "Umis resolves a small misorientation on top of a symmetry operator", ref, m[:, 1])
            r.check("small-angle-min", abs(float(m[:, 1].min()) - epsdeg), 1e-4, key + ":min", "smallest angle = the applied misorientation", epsdeg, float(m[:, 1].min()))
            r.transitions += 1
    # history: one work buffer refilled in place between consecutive calls (either argument position)
    for pos in (0, 1):
        buf = np.array(R[(case["i"] + 3) % len(R)][1], float)
        fixed = R[(case["i"] + 11) % len(R)][1]
        symmetry.Umis(*((buf, fixed) if pos == 0 else (fixed, buf)), k)
        buf[...] = U1
        m = np.asarray(symmetry.Umis(*((buf, fixed) if pos == 0 else (fixed, buf)), k), float)
        a_, b_ = (U1, fixed) if pos == 0 else (fixed, U1)
        ref = np.array([ang(a_.T @ b_ @ rot[j].T) for j in range(len(rot))])
        r.check("reused-buffer", float(np.max(np.abs(m[:, 1] - ref))), 1e-4, "cs%d:U1=%s:reused-buffer-arg%d" % (k, q1, pos),
                "Umis uses the CURRENT contents of an orientation array the caller refills in place", ref, m[:, 1])
    # history: results already returned must not change when Umis is called again (same crystal system, other orientations)
    held = []
    for q2, U2 in R[:6]:
        out = symmetry.Umis(U1, U2, k)
        held.append((q2, out, np.array(out, float, copy=True)))
    for q2, out, snap in held:
        r.require(bool(np.array_equal(np.asarray(out, float), snap)), "cs%d:U1=%s:U2=%s:held" % (k, q1, q2), "a Umis result already returned is not changed by later calls")
    # argument kinds x call forms: orientation matrices as ndarray / strided view / Fortran order / transposed view / float32 and, for
    # the 24 axis-aligned rotations (whole numbers), integer arrays; the crystal system as int / numpy int; positionally and by keyword
    # (nested lists and tuples are not accepted by the unchanged library - umat.T - and are left out)
    nolist = ("list", "tuple", "int list", "int tuple")
    Ua, Ub = axis24[case["i"] % len(axis24)], axis24[(case["i"] * 5 + 1) % len(axis24)]
    for a_, b_, tg in ((U1, R[(case["i"] + 7) % len(R)][1], "lattice"), (Ua, Ub, "axis24")):
        for pos in (0, 1):
            variants(r, "cs%d:Umis(%s,%d)" % (k, tg, case["i"]), symmetry.Umis, [a_, b_, k], pos, 1e-4, 0.2, skip=nolist)
    variants(r, "cs%d:Umis(axis24,%d)" % (k, case["i"]), symmetry.Umis, [Ua, Ub, k], 2, 1e-4, None, skip=("float", "np.float64", "0-d array"))
    # both arguments in the same non-default dtype at once
    ref_ab = np.asarray(symmetry.Umis(Ua, Ub, k), float)
    for dt in (np.int64, np.int32, np.int8, np.float32):
        try:
            got = np.asarray(symmetry.Umis(np.rint(Ua).astype(dt), np.rint(Ub).astype(dt), k), float)
            dd = float(np.max(np.abs(got - ref_ab))) if got.shape == ref_ab.shape else float("inf")
        except Exception as ex:
            dd = float("inf")
        r.check("both-dtype", dd, 0.2 if dt is np.float32 else 1e-4, "cs%d:Umis(axis24,%d):both as %s" % (k, case["i"], np.dtype(dt).name),
                "Umis of two axis-aligned rotations given as %s arrays" % np.dtype(dt).name)
    mm = np.asarray(symmetry.Umis(U1, U1, k), float)
    r.require(float(mm[:, 1].min()) < 1e-4, "cs%d:U=%s:self" % (k, q1), "Umis(U,U) contains 0", 0, float(mm[:, 1].min()))
    return r


def alphabet(tier):
    return {"crystal_systems": 7, "rotations": len(rot_alphabet(tier))}


def samples(cases):
    return [cases[0], cases[6], cases[7], cases[-2]]
