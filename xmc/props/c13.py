"""C13 - strain and strained B matrix are exact inverses; UBI yields back U and strain."""
from __future__ import annotations

import itertools
import math

import numpy as np

from .. import alph
from .. import oracles as O
from ..core import CaseResult, twice, variants

PROP = "C13"
LEVEL = "exploration"
RULE = ("cells (12 quick / 60 thorough from the cell alphabet, all cosine sign patterns) x strain tensors {-0.1,0,0.1}^6 (729) + 63 strains on a logarithmic ladder of magnitudes 1e-7..1e-2 (+ {-0.05,0.03}^6 "
        "in thorough) x rotations from the integer-quaternion lattice x both modules, new and _old function pairs; each strain walks the "
        "conversion graph eps -> B -> eps -> (with U) UBI -> (U, eps) and every state is compared with the harness' own construction "
        "B = inv(T).B0, T upper triangular with sym(T) = eps + I. distinct_nontrivial = distinct (module, cell, eps) with eps != 0.")
ASSUMPTIONS = ["B0 from the harness metric (Cholesky of the reciprocal metric)", "tolerance 1e-9 / Gram determinant of the cell",
               "UBI = f . inv(U.B) with f = 2 pi for tools and 1 for laue (what u_to_ubi produces)"]

KF = "KF-tools-ubi-eps-2pi"


def cell_list(tier):
    cs = alph.cells("quick")
    n = 12 if tier == "quick" else 60
    step = max(1, len(cs) // n)
    return cs[::step][:n] + [list(c) for c in alph.SPECIAL_CELLS[:5]]


def eps_list(tier):
    e = [list(x) for x in itertools.product((0.0, 0.1, -0.1), repeat=6)]
    # tiny strains (a tolerance that treats "almost unstrained" as unstrained lives here)
    for mag in (3e-6, -1e-6, 1e-7, 1e-5, -1e-4, 5e-4, -8e-4, 1e-3, 1e-2):  # a logarithmic ladder between "tiny" and 0.1
        for k in range(6):
            v = [0.0] * 6
            v[k] = mag
            e.append(v)
        e.append([mag, -mag, mag / 2, mag, -mag / 3, mag])
    if tier == "thorough":
        e += [list(x) for x in itertools.product((-0.05, 0.03), repeat=6)]
    return e


def cases(tier, seed):
    cs = []
    for mod in ("tools", "laue"):
        for cell in cell_list(tier):
            cs.append({"mod": mod, "cell": cell, "tier": tier})
    return cs


def tmat(eps):
    e11, e12, e13, e22, e23, e33 = eps
    return np.array([[1 + e11, 2 * e12, 2 * e13], [0, 1 + e22, 2 * e23], [0, 0, 1 + e33]], float)


def check_case(case):
    import xfab.laue
    import xfab.tools

    mname = case["mod"]
    mod = {"tools": xfab.tools, "laue": xfab.laue}[mname]
    f = 2 * math.pi if mname == "tools" else 1.0
    tier = case["tier"]
    cell = case["cell"]
    r = CaseResult()
    B0 = O.b_ref(cell, f)
    tol = 1e-9 / O.gram_det(cell)
    rots = [R for _, R in alph.quat_rots(1)]
    rots = [rots[0], rots[7], rots[23]] if tier == "quick" else rots[:12]
    # orientations where an Euler-angle detour would lose digits: PHI 1e-7 / 1e-6 from 0 and pi, a Bunge angle 5e-9 from a multiple of 90 degrees
    rots = rots + [alph.euler_ref(0.3, 1e-7, 1.1), alph.euler_ref(4.0, math.pi - 1e-6, 6.0), alph.euler_ref(math.pi / 2 + 5e-9, 0.7, 1.0), alph.euler_ref(2.0, math.pi / 2 - 3e-9, 0.4)]
    base = "%s:cell=%s" % (mname, cell)
    bn = float(np.max(np.abs(B0)))
    # zero strain gives the unstrained B
    Bz = np.asarray(mod.epsilon_to_b([0.0] * 6, cell), float)
    r.check("zero-strain", float(np.max(np.abs(Bz - B0))) / bn, tol, base + ":zero", "epsilon_to_b(0) = unstrained B", B0, Bz)
    Bzo = np.asarray(mod.epsilon_to_b_old([0.0] * 6, cell), float)
    r.check("zero-strain-old", float(np.max(np.abs(Bzo - B0))) / bn, tol, base + ":zero-old", "epsilon_to_b_old(0) = unstrained B", B0, Bzo)
    for eps in eps_list(tier):
        key = "%s:eps=%s" % (base, eps)
        e = np.array(eps, float)
        T = tmat(eps)
        Bref = np.linalg.inv(T) @ B0
        # eps -> B
        B = np.asarray(twice(r, key + ":epsilon_to_b", mod.epsilon_to_b, eps, cell), float)
        r.check("eps->B", float(np.max(np.abs(B - Bref))) / bn, tol, key + ":e2b", "epsilon_to_b = inv(T).B0 with sym(T) = eps + I", Bref, B)
        # B -> eps, from the reference B and from the state reached (non-initial)
        for nm, Bin in (("ref", Bref), ("chain", B)):
            e2 = np.array(mod.b_to_epsilon(Bin, cell), float)
            r.check("B->eps", float(np.max(np.abs(e2 - e))), tol, key + ":b2e-" + nm, "b_to_epsilon(B) = sym(B0.inv(B)) - I", eps, e2)
        # the _old pair are mutual inverses
        Bo = np.asarray(mod.epsilon_to_b_old(eps, cell), float)
        eo = np.array(mod.b_to_epsilon_old(Bo, cell), float)
        r.check("old-roundtrip", float(np.max(np.abs(eo - e))), tol * 10, key + ":old", "b_to_epsilon_old(epsilon_to_b_old(eps)) = eps", eps, eo)
        Bo2 = np.asarray(mod.epsilon_to_b_old(list(eo), cell), float)
        r.check("old-roundtrip-B", float(np.max(np.abs(Bo2 - Bo))) / bn, tol * 10, key + ":old-B", "epsilon_to_b_old(b_to_epsilon_old(B)) = B", Bo, Bo2)
        # with U: UBI -> (U, eps)
        for ui, U in enumerate(rots):
            ubi = f * np.linalg.inv(U @ Bref)
            k2 = key + ":U%d" % ui
            try:
                U2, e3 = mod.ubi_to_u_and_eps(ubi, cell)
            except Exception as ex:
                r.evals += 1
                r.violation(k2 + ":exception", "ubi_to_u_and_eps raised on a valid UBI", None, repr(ex))
                continue
            U2 = np.asarray(U2, float)
            e3 = np.array(e3, float)
            r.check("ubi->U", float(np.max(np.abs(U2 - U))), tol, k2 + ":U", "ubi_to_u_and_eps returns the rotation U", U, U2)
            dev = float(np.max(np.abs(e3 - e)))
            r.evals += 1
            r.upd("ubi->eps", dev if mname == "laue" else 0.0)
            if not dev <= tol:
                # defect model: the strain is computed from a B without the 2 pi but referred to tools' B0 with it
                pred = 2 * math.pi * (T + T.T) / 2 - np.eye(3)
                pv = np.array([pred[0, 0], pred[0, 1], pred[0, 2], pred[1, 1], pred[1, 2], pred[2, 2]])
                is_model = mname == "tools" and float(np.max(np.abs(e3 - pv))) <= 1e-9 * 10 / O.gram_det(cell)
                r.violation(k2 + ":eps", "ubi_to_u_and_eps returns the strain eps", eps, e3, tol, dev, model=KF if is_model else None)
        if any(eps):
            r.nontrivial.add("%s:%s:%s" % (mname, cell, eps))
        # history: the reference-cell argument is a buffer the caller reuses (first another cell, then this one, edited in place)
        if eps in (eps_list(tier)[0], eps_list(tier)[5], eps_list(tier)[100]):
            other = [cell[1] * 1.3, cell[2] * 0.9, cell[0] * 1.1, cell[4], cell[5], cell[3]]
            for kind, out in alph.dirty_call(lambda e_, c_: mod.epsilon_to_b(e_, c_), (eps, other), (eps, cell), pos=1):
                r.check("eps->B dirty", float(np.max(np.abs(np.asarray(out, float) - Bref))) / bn, tol, key + ":e2b:reused-%s-cell" % kind,
                        "epsilon_to_b uses the CURRENT contents of a cell %s the caller reuses" % kind)
            for kind, out in alph.dirty_call(lambda b_, c_: mod.b_to_epsilon(b_, c_), (Bref, other), (Bref, cell), pos=1):
                r.check("B->eps dirty", float(np.max(np.abs(np.array(out, float) - e))), tol, key + ":b2e:reused-%s-cell" % kind,
                        "b_to_epsilon uses the CURRENT contents of a cell %s the caller reuses" % kind)
            ubi0 = f * np.linalg.inv(rots[0] @ Bref)
            if mname == "laue":
                for kind, out in alph.dirty_call(lambda u_, c_: mod.ubi_to_u_and_eps(u_, c_), (ubi0, other), (ubi0, cell), pos=1):
                    r.check("ubi->eps dirty", float(np.max(np.abs(np.array(out[1], float) - e))), tol, key + ":ubi:reused-%s-cell" % kind,
                            "ubi_to_u_and_eps uses the CURRENT contents of a cell %s the caller reuses" % kind)
            # argument kinds x call forms: strain, B, UBI and cell as list / tuple / ndarray / views / float32 and, when whole numbers
            # (zero strain, cells typed as 4, 4, 6, 90, 90, 120), ints and integer arrays; positionally and by keyword
            ts = 2e-5 / O.gram_det(cell)
            relB = lambda a, b: float(np.max(np.abs(np.asarray(a, float) - np.asarray(b, float)))) / bn
            for fn, args in (("epsilon_to_b", [eps, cell]), ("epsilon_to_b_old", [eps, cell])):
                for pos in (0, 1):
                    variants(r, key + ":" + fn, getattr(mod, fn), args, pos, tol * 10, ts, dev=relB)
            for fn, args in (("b_to_epsilon", [Bref, cell]), ("b_to_epsilon_old", [Bo, cell])):
                for pos in (0, 1):
                    variants(r, key + ":" + fn, getattr(mod, fn), args, pos, tol * 10, ts)
            ue = lambda a, b: max(float(np.max(np.abs(np.asarray(a[0], float) - np.asarray(b[0], float)))), float(np.max(np.abs(np.asarray(a[1], float) - np.asarray(b[1], float)))))
            for pos in (0, 1):
                variants(r, key + ":ubi_to_u_and_eps", mod.ubi_to_u_and_eps, [ubi0, cell], pos, tol * 10, ts * 10, dev=ue)
        r.states += 4
        r.transitions += 6 + len(rots)
    return r


def alphabet(tier):
    return {"cells": len(cell_list(tier)), "strains": len(eps_list(tier)), "rotations": 3 if tier == "quick" else 12}


def samples(cases):
    return [cases[0], cases[-1], {"eps examples": eps_list("quick")[1:4]}]
