"""C14 - xfab.tools and xfab.laue agree on everything except the documented factor 2*pi (differential check)."""
from __future__ import annotations

import inspect
import itertools
import math

import numpy as np

from .. import alph
from .. import oracles as O
from ..core import CaseResult, bind_repo
from . import c09

PROP = "C14"
LEVEL = "exploration"
RULE = ("the set of functions defined in both modules is read from the modules at run time; each has an adapter giving its complete input "
        "alphabet (reduced alphabets of C01-C03, C05, C06, C09, C13; all 237 tabulated reflection-condition vectors plus 104 synthetic "
        "one-hot vectors x the index box x crystal-system / cell-choice variants for sysabs*) and its scaling rule (B-like outputs and "
        "g-like inputs scale by 2 pi, everything else identical); the other module is the oracle. distinct_nontrivial = distinct "
        "(function, input) pairs compared.")
ASSUMPTIONS = ["arrays compared at 1e-9 relative to the largest entry (1e-9/Gram for cell-dependent quantities)", "exceptions must be of the same type",
               "excluded: rotations by exactly 180 degrees for u_to_rod/ubi_to_rod and the solution COUNT of the omega solvers within 1e-6 of tangency "
               "(both are decided by rounding noise and excluded by the borrowed properties)",
               "a common function without an adapter is listed as unexplored in the evidence (it cannot be judged)"]

TP = 2 * math.pi
KF = "KF-tools-ubi-eps-2pi"


def cells(tier):
    cs = alph.cells("quick")
    n = 10 if tier == "quick" else 40
    return cs[::max(1, len(cs) // n)][:n] + [[5.1, 6.2, 7.3, 90.0, 90.0004, 90.0], [4.0, 4.0, 9.0, 89.9996, 90.00001, 120.0]] + [list(c) for c in alph.SPECIAL_CELLS]


def rots(tier):
    R = [R for _, R in alph.quat_rots(1 if tier == "quick" else 2)]
    R = R[:14] if tier == "quick" else R[:60]
    R += [alph.euler_ref(6.0, 1e-7, 0.1), alph.euler_ref(0.3, math.pi - 1e-9, 2.0), alph.euler_ref(0.3, 0.4, 0.5)]
    return R


def not180(U):
    return abs(1 + np.trace(U)) > 1e-6


HKLS = [(1, 0, 0), (0, 1, 0), (0, 0, 1), (1, 1, 1), (-2, 1, 3), (3, -3, 1), (1, 2, -3)]
EPS = [(0.0,) * 6, (0.1, -0.1, 0.05, 0.0, 0.02, -0.03), (-0.05, 0.03, 0.0, 0.1, -0.1, 0.07)]


def gen(fn, tier):
    """yield (key, args_tools, args_laue, scale) ; scale: tools_out = scale * laue_out (scalar or tuple per output component)"""
    C = cells(tier)
    R = rots(tier)
    one = 1.0
    if fn in ("form_a_mat", "form_a_mat_inv", "cell_volume", "cell_invert", "reduce_cell"):
        for c in C:
            yield (c, (c,), (c,), one)
    elif fn == "form_b_mat":
        for c in C:
            yield (c, (c,), (c,), TP)
    elif fn == "a_to_cell":
        for c in C:
            A = O.a_ref(c)
            yield (c, (A,), (A,), one)
            yield ((c, "rotated"), (R[3] @ A,), (R[3] @ A,), one)
    elif fn == "b_to_cell":
        for c in C:
            B = O.b_ref(c)
            yield (c, (B * TP,), (B,), one)
    elif fn in ("sintl", "tth"):
        for c in C:
            for h in HKLS:
                yield ((c, h), (c, h) + ((0.1,) if fn == "tth" else ()), (c, h) + ((0.1,) if fn == "tth" else ()), one)
        # one cell list / array object reused by the caller with new contents (same object for consecutive calls)
        for kind in ("list", "ndarray"):
            buf_t = [0.0] * 6 if kind == "list" else np.zeros(6)
            buf_l = [0.0] * 6 if kind == "list" else np.zeros(6)
            for c in C[:6]:
                buf_t[:] = c
                buf_l[:] = c
                yield ((c, "reused " + kind), (buf_t, (1, 2, -3)) + ((0.1,) if fn == "tth" else ()), (buf_l, (1, 2, -3)) + ((0.1,) if fn == "tth" else ()), ("oracle-stl", list(c), fn))
    elif fn == "tth2":
        for c in C:
            B = O.b_ref(c)
            for h in HKLS:
                for U in R[:4]:
                    g = U @ B @ np.array(h, float)
                    yield ((c, h), (g * TP, 0.1), (g, 0.1), one)
    elif fn in ("epsilon_to_b", "epsilon_to_b_old"):
        for c in C:
            for e in EPS:
                yield ((c, e), (list(e), c), (list(e), c), TP)
    elif fn in ("b_to_epsilon", "b_to_epsilon_old"):
        for c in C:
            B0 = O.b_ref(c)
            for e in EPS:
                T = np.array([[1 + e[0], 2 * e[1], 2 * e[2]], [0, 1 + e[3], 2 * e[4]], [0, 0, 1 + e[5]]])
                B = np.linalg.inv(T) @ B0
                yield ((c, e), (B * TP, c), (B, c), one)
    elif fn in ("u_to_ubi",):
        for c in C:
            for U in R:
                yield ((c, U), (U, c), (U, c), one)
    elif fn in ("ubi_to_u", "ubi_to_cell", "ubi_to_rod", "ubi_to_u_b", "ubi_to_u_and_eps"):
        for c in C:
            B = O.b_ref(c)
            for U in R:
                if fn == "ubi_to_rod" and not not180(U):
                    continue
                ubi = np.linalg.inv(U @ B)
                if fn == "ubi_to_u_and_eps":
                    for e in EPS[:2]:
                        T = np.array([[1 + e[0], 2 * e[1], 2 * e[2]], [0, 1 + e[3], 2 * e[4]], [0, 0, 1 + e[5]]])
                        ubi = np.linalg.inv(U @ (np.linalg.inv(T) @ B))
                        yield ((c, U, e), (ubi, c), (ubi, c), (one, one))
                else:
                    yield ((c, U), (ubi,), (ubi,), (one, TP) if fn == "ubi_to_u_b" else one)
    elif fn == "ub_to_u_b":
        for c in C:
            B = O.b_ref(c)
            for U in R:
                yield ((c, U), (U @ B * TP,), (U @ B,), (one, TP))
        for M in ([[1, 2, 0], [0, 1, -1], [1, 0, 1]], [[0, -1, 0], [1, 0, 0.5], [0.2, 0, 1]], [[2, 0, 0], [0, 1e-2, 0], [1, 1, 1e2]]):
            M = np.array(M, float)
            if np.linalg.det(M) > 0:
                yield (M, (M * TP,), (M,), (one, TP))
        from . import c02

        for M in c02.illcond():
            yield (np.round(M, 6), (M * TP,), (M,), (one, TP))
    elif fn in ("u_to_euler", "u_to_rod"):
        band = [alph.euler_ref(p1, P, p2) for p1 in (0.0, 1.0, 4.0) for p2 in (0.0, 2.0, 6.0) for d in alph.GIMBAL_BAND for P in (d, math.pi - d)]
        for U in R + band:
            if fn == "u_to_rod" and not not180(U):
                continue
            yield (U, (U,), (U,), one)
    elif fn in ("euler_to_u", "form_omega_mat_general", "quart_to_omega", "detect_tilt"):
        g = [k * math.pi / 4 for k in range(9)] + [0.1]
        for e in itertools.product(g, repeat=3):
            yield (e, e, e, one)
        if fn != "euler_to_u":
            for e in ((-1.0, 7.0, -100.0), (1e3, -1e-9, 0.5)):
                yield (e, e, e, one)
        else:
            for e in ((-1e-3, 1.0, 1.0), (1.0, 7.0, 1.0), (1.0, 1.0, 2 * math.pi + 1e-9)):  # rejected alike
                yield (e, e, e, one)
    elif fn == "form_omega_mat":
        for a in [k * math.pi / 12 for k in range(-24, 49)] + [1e-9, -1e3]:
            yield (a, (a,), (a,), one)
    elif fn == "rod_to_u":
        for d in alph.directions(2):
            for n in (0.0, 1e-3, 0.1, 1.0, 10.0, 1e3):
                v = np.array(d, float) / math.sqrt(sum(x * x for x in d)) * n
                yield ((d, n), (v,), (v,), one)
    elif fn == "_arctan2":
        vals = [0.0, 1e-12, -1e-12, 1e-9, -1e-9, 5e-9, -2e-8, 1e-8, 1e-7, 1.0, -1.0, 3.0, 1e8]
        for y, x in itertools.product(vals, repeat=2):
            yield ((y, x), (y, x), (y, x), one)
    elif fn.startswith("find_omega"):
        for tthd in (0.5, 2, 30, 90, 150):
            tth = math.radians(tthd)
            st = math.sin(tth / 2)
            for d in alph.directions(2 if tier == "quick" else 3):
                g = np.array(d, float) / math.sqrt(sum(x * x for x in d)) * st
                gl = g * (0.37 if (tthd in (0.5, 30, 150)) else 3.7)  # laue normalises g itself: feed it shorter AND longer vectors
                if fn == "find_omega":
                    yield ((tthd, d), (g, tth), (gl, tth), ("omega", g, st, None))
                elif fn == "find_omega_wedge":
                    for w in (0.0, 0.2, -0.5):
                        yield ((tthd, d, w), (g, tth, w), (gl, tth, w), ("omega", g, st, ("wedge", w)))
                else:
                    for wx, wy in ((0.0, 0.0), (0.1, -0.3), (-0.5, 0.5), (0.3, 0.0)):
                        yield ((tthd, d, wx, wy), (g, tth, wx, wy), (gl, tth, wx, wy), ("omega", g, st, (fn, wx, wy)))
    elif fn in ("genhkl_all", "genhkl_unique", "genhkl_base", "genhkl"):
        bind_repo()
        from xfab import sg

        sets = alph.SETTINGS if tier == "thorough" else [s for s in alph.SETTINGS if s[0] in (1, 2, 5, 14, 19, 62, 88, 141, 143, 146, 148, 150, 155, 162, 166, 167, 168, 176, 186, 191, 194, 198, 205, 218, 225, 227, 230)]
        for no, cc in sets:
            g = sg.sg(sgno=no, cell_choice=cc)
            cl = alph.conforming_cells(g.crystal_system, g.cell_choice)
            for c in cl[:2]:
                if fn in ("genhkl_all", "genhkl_unique"):
                    for stl in (True, False):
                        a = (c, 0.05, 0.41)
                        k = dict(sgno=no, cell_choice=cc, output_stl=stl)
                        yield ((no, cc, c, stl), (a, k), (a, k), ("kw", fn))
                    # bounds fed back from a previous output_stl column: they coincide bit for bit with a reflection's value
                    import xfab.tools as _t

                    col = _t.genhkl_unique(c, 0.05, 0.41, sgno=no, cell_choice=cc, output_stl=True)
                    if len(col) > 6:
                        lo_, hi_ = float(col[len(col) // 4, 3]), float(col[(3 * len(col)) // 4, 3])
                        a = (c, lo_, hi_)
                        k = dict(sgno=no, cell_choice=cc, output_stl=True)
                        yield ((no, cc, c, "fed-back bounds", lo_, hi_), (a, k), (a, k), ("kw", fn))
                elif fn == "genhkl_base":
                    a = (c, g.syscond, 0.05, 0.41, g.crystal_system, g.Laue, g.cell_choice, True)
                    yield ((no, cc, c), a, a, one)
                else:
                    a = (c, g.syscond, 0.05, 0.33, g.crystal_system, True)
                    yield ((no, cc, c), a, a, one)
    elif fn in ("sysabs", "sysabs_unique"):
        bind_repo()
        from xfab import sg

        vecs = []
        seen = set()
        for no, cc in alph.SETTINGS:
            g = sg.sg(sgno=no, cell_choice=cc)
            t = tuple(int(x) for x in g.syscond)
            if t not in seen:
                seen.add(t)
                vecs.append((t, g.crystal_system, g.cell_choice))
        for k in range(26):
            for X in (2, 3, 4, 6):
                v = [0] * 26
                v[k] = X
                vecs.append((tuple(v), "triclinic", "standard"))
        box = alph.hkl_box(3 if tier == "quick" else 6, zero=True)
        for v, cs_, cc_ in vecs:
            if fn == "sysabs_unique":
                yield (("vec", v), (box, v), (box, v), ("box",))
            else:
                variants = {(cs_, cc_), ("triclinic", "standard"), ("hexagonal", "standard"), ("trigonal", "rhombohedral"), ("cubic", "standard")}
                for a, b in sorted(variants):
                    yield (("vec", v, a, b), (box, v, a, b), (box, v, a, b), ("box",))
    else:
        return


def _numeric(x):
    if isinstance(x, bool) or isinstance(x, str) or x is None:
        return False
    if isinstance(x, (int, float, np.floating, np.integer)):
        return True
    if isinstance(x, np.ndarray):
        return x.dtype.kind in "fiu" and x.ndim >= 1 and x.size > 0
    if isinstance(x, (list, tuple)) and len(x) > 0:
        try:
            a = np.asarray(x, float)
            return a.ndim >= 1 and a.size > 0
        except Exception:
            return False
    return False


def gen2(fn, tier):
    """gen(fn) followed by the argument-kind alphabet (alph.kinds: containers, dtypes, memory layouts, whole numbers as ints) applied to
    every numeric argument of the first two inputs, and - for the reflection generators - every way of asking for a group."""
    base = []
    seen_laue = set()
    for item in gen(fn, tier):
        yield item
        sc = item[3]
        if fn in ("genhkl_all", "genhkl_unique", "genhkl_base", "genhkl"):
            # the traversal has one branch per Laue class / setting: the kinds are applied to one input of each
            from xfab import sg

            g_ = sg.sg(sgno=item[0][0], cell_choice=item[0][1])
            if (g_.Laue, g_.cell_choice) not in seen_laue:
                seen_laue.add((g_.Laue, g_.cell_choice))
                base.append(item)
        elif len(base) < 2 and not (isinstance(sc, tuple) and sc and sc[0] in ("oracle-stl", "box")):
            base.append(item)
    for key, ta, la, scale in base:
        kw = len(ta) == 2 and isinstance(ta[1], dict) and isinstance(ta[0], tuple)
        pt, pl = (ta[0], la[0]) if kw else (ta, la)
        for p in range(len(pt)):
            if not (_numeric(pt[p]) and _numeric(pl[p])):
                continue
            kt = {k_: o for k_, o, _ in alph.kinds(pt[p])}
            kl = {k_: o for k_, o, _ in alph.kinds(pl[p])}
            for kind in kt:
                if kind not in kl:
                    continue
                t2 = tuple(kt[kind] if i == p else x for i, x in enumerate(pt))
                l2 = tuple(kl[kind] if i == p else x for i, x in enumerate(pl))
                kk = (key if not isinstance(key, np.ndarray) else key.tolist(), "arg%d as %s" % (p, kind))
                yield (kk, (t2, ta[1]) if kw else t2, (l2, la[1]) if kw else l2, scale)
    if fn in ("genhkl_all", "genhkl_unique"):
        # very long axes: a thin shell whose reflections have an index around 1000 (on l, on k)
        for no in (2, 16, 47):
            for c in ([3.0, 4.0, 2400.0, 90.0, 90.0, 90.0], [3.0, 2400.0, 4.0, 90.0, 90.0, 90.0]):
                a = (c, 0.24295, 0.24305)
                k = dict(sgno=no, output_stl=True)
                yield ((no, "standard", c, "index ~1000"), (a, k), (a, k), ("kw", fn))
    if fn in ("genhkl_all", "genhkl_unique"):
        bind_repo()
        from xfab import sg

        for no, cc in [(n_, c_) for n_ in alph.RHOMB for c_ in ("standard", "rhombohedral")] + [(14, "standard"), (62, "standard"), (150, "standard"), (225, "standard")]:
            g = sg.sg(sgno=no, cell_choice=cc)
            c = alph.conforming_cells(g.crystal_system, g.cell_choice)[0]
            for lab, kwf in O.group_forms(no, cc):
                a = (c, 0.05, 0.38)
                k = dict(output_stl=True, **kwf)
                yield ((no, cc, "asked by " + lab), (a, k), (a, k), ("kw", fn))
                a = (c, 0.05, 0.38, kwf.get("sgname"), kwf.get("sgno"), kwf.get("cell_choice", "standard"), True)
                yield ((no, cc, "asked by " + lab, "positional"), (a, {}), (a, {}), ("kw", fn))


ADAPTED = ["_arctan2", "a_to_cell", "b_to_cell", "b_to_epsilon", "b_to_epsilon_old", "cell_invert", "cell_volume", "detect_tilt", "epsilon_to_b",
           "epsilon_to_b_old", "euler_to_u", "find_omega", "find_omega_general", "find_omega_quart", "find_omega_wedge", "form_a_mat",
           "form_a_mat_inv", "form_b_mat", "form_omega_mat", "form_omega_mat_general", "genhkl", "genhkl_all", "genhkl_base", "genhkl_unique",
           "quart_to_omega", "reduce_cell", "rod_to_u", "sintl", "sysabs", "sysabs_unique", "tth", "tth2", "u_to_euler", "u_to_rod", "u_to_ubi",
           "ub_to_u_b", "ubi_to_cell", "ubi_to_rod", "ubi_to_u", "ubi_to_u_and_eps", "ubi_to_u_b"]


def common_functions():
    bind_repo()
    import xfab.laue
    import xfab.tools

    ft = {n for n, f in vars(xfab.tools).items() if inspect.isfunction(f) and f.__module__ == "xfab.tools"}
    fl = {n for n, f in vars(xfab.laue).items() if inspect.isfunction(f) and f.__module__ == "xfab.laue"}
    return sorted(ft & fl), sorted(ft - fl), sorted(fl - ft)


NPARTS = {"sysabs": 16, "sysabs_unique": 8, "genhkl_all": 16, "genhkl_unique": 8, "genhkl_base": 8, "genhkl": 8, "find_omega_general": 4, "find_omega_quart": 4,
          "ubi_to_u_and_eps": 2}


def cases(tier, seed):
    common, only_t, only_l = common_functions()
    cs = []
    for fn in common:
        if fn in ADAPTED:
            n = NPARTS.get(fn, 1)
            for p in range(n):
                cs.append({"fn": fn, "part": p, "nparts": n, "tier": tier})
    cs.append({"fn": None, "tier": tier})
    return cs


def call(f, args):
    try:
        if len(args) == 2 and isinstance(args[1], dict) and isinstance(args[0], tuple):
            return "ok", f(*args[0], **args[1])
        return "ok", f(*args)
    except Exception as ex:
        return "exc", type(ex).__name__


def dev(a, b, scale):
    a = np.asarray(a, float)
    b = np.asarray(b, float) * scale
    if a.shape != b.shape:
        return float("inf")
    if a.size == 0:
        return 0.0
    both_nan = np.isnan(a) & np.isnan(b)  # e.g. tth of a reflection that cannot diffract at this wavelength: nan in both modules
    if both_nan.all():
        return 0.0
    a = np.where(both_nan, 0.0, a)
    b = np.where(both_nan, 0.0, b)
    return float(np.max(np.abs(a - b))) / max(float(np.max(np.abs(a))), float(np.max(np.abs(b))), 1e-3)


def check_case(case):
    import xfab.laue
    import xfab.tools

    r = CaseResult()
    fn = case["fn"]
    if fn is None:
        common, only_t, only_l = common_functions()
        unexpl = [f for f in common if f not in ADAPTED]
        r.extra = {"common": common, "unexplored": unexpl, "only_tools": only_t, "only_laue": only_l}
        r.require(len(common) >= 2, "common", "the modules share functions")
        r.nontrivial.add("inventory")
        return r
    ft = getattr(xfab.tools, fn)
    fl = getattr(xfab.laue, fn)
    tol0 = 1e-9
    for i, (key, ta, la, scale) in enumerate(gen2(fn, case["tier"])):
        if i % case["nparts"] != case["part"]:
            continue
        k = "%s:%s" % (fn, key if not isinstance(key, np.ndarray) else key.tolist())
        # float32 input: the modules round different numbers (B vs 2 pi B) to single precision: agreement to single precision only
        tol = 1e-6 if (isinstance(key, tuple) and any(isinstance(x, str) and "float32" in x for x in key)) else tol0
        if isinstance(scale, tuple) and scale and scale[0] == "oracle-stl":
            # reused-buffer items: both modules must agree with each other AND with the harness metric for the buffer's current contents
            st, vt = call(ft, ta)
            sl, vl = call(fl, la)
            r.evals += 1
            sref = O.stl(O.recip_metric(scale[1]), (1, 2, -3))
            want = sref if scale[2] == "sintl" else 2 * math.asin(0.1 * sref)
            okk = st == "ok" and sl == "ok" and abs(float(vt) - want) <= 1e-9 * want / O.gram_det(scale[1]) and abs(float(vl) - want) <= 1e-9 * want / O.gram_det(scale[1])
            if not okk:
                r.violation(k, "%s answers for the CURRENT contents of a cell object the caller reuses (both modules)" % fn, want, [repr(vt), repr(vl)])
            r.nontrivial.add(k[:120])
            continue
        if isinstance(scale, tuple) and scale and scale[0] == "box":
            box = ta[0]
            rest = ta[1:]
            a = [ft(h, *rest) for h in box]
            b = [fl(h, *rest) for h in box]
            r.evals += len(box)
            if a != b:
                j = next(j for j in range(len(box)) if a[j] != b[j])
                r.violation(k, "sysabs results differ", {"hkl": box[j], "tools": a[j]}, {"laue": b[j]})
            r.nontrivial.add(k[:120])
            continue
        from ..core import _args_unchanged, _snap_args

        def split(a_):
            return (a_[0], a_[1]) if (len(a_) == 2 and isinstance(a_[1], dict) and isinstance(a_[0], tuple)) else (a_, {})

        snaps = [_snap_args(*split(ta)), _snap_args(*split(la))]
        np.random.seed(0)
        st, vt = call(ft, ta)
        np.random.seed(5)
        sl, vl = call(fl, la)
        r.evals += 1
        r.nontrivial.add(k[:160])
        # neither module may modify the argument objects of its caller (who goes on to hand them to other functions)
        _args_unchanged(r, k + ":tools", snaps[0], *split(ta))
        _args_unchanged(r, k + ":laue", snaps[1], *split(la))
        # the same argument OBJECTS once more in each module: the answer must not change (an argument modified in place by the first
        # call, or a memo, would make the two modules disagree from the second call on)
        if st == "ok" and not (isinstance(scale, tuple) and scale and scale[0] in ("kw",)):
            import copy

            c_t, c_l = copy.deepcopy(vt), copy.deepcopy(vl)
            st2, vt2 = call(ft, ta)
            sl2, vl2 = call(fl, la)
            r.evals += 1
            from ..core import same_value

            if st2 != "ok" or sl2 != "ok" or not same_value(c_t, vt2) or not same_value(c_l, vl2):
                r.violation(k + ":second-call", "calling again with the same argument objects gives the same result in both modules",
                            [repr(c_t)[:150], repr(c_l)[:150]], [repr(vt2)[:150], repr(vl2)[:150]])
        if st != sl or (st == "exc" and vt != vl):
            r.violation(k, "one module raises where the other returns / different exception types", [st, repr(vt)[:200]], [sl, repr(vl)[:200]])
            continue
        if st == "exc":
            continue
        if isinstance(scale, tuple) and scale and scale[0] == "kw":
            a = np.asarray(vt, float)
            b = np.asarray(vl, float)
            if scale[1] == "genhkl_all" and a.size and b.size and a.shape == b.shape:
                a = a[np.lexsort(a.T[::-1])]
                b = b[np.lexsort(b.T[::-1])]
            d = dev(a, b, 1.0)
            if not d <= tol:
                r.violation(k, "reflection lists differ", np.asarray(vt).shape, np.asarray(vl).shape, tol, d)
            continue
        if isinstance(scale, tuple) and scale and scale[0] == "omega":
            _, g, stt, kind = scale
            ot = vt if fn == "find_omega" else vt[0]
            ol = vl if fn == "find_omega" else vl[0]
            if kind is None:
                row, gg = (1.0, 0.0, 0.0), g
            elif kind[0] == "wedge":
                row, gg = alph.Ry(-kind[1])[0], g
            elif kind[0] == "find_omega_general":
                row, gg = (alph.Rx(kind[1]) @ alph.Ry(kind[2]))[0], g
            else:
                P = alph.Rx(kind[1]) @ alph.Ry(kind[2])
                row, gg = P[0], P.T @ g
            if c09.expected_count(row, gg, stt) is None:
                r.extra["near_tangency_skipped"] = r.extra.get("near_tangency_skipped", 0) + 1
                continue  # within 1e-6 of tangency neither the count nor the (ill-conditioned) values are comparable
            if len(ot) != len(ol):
                r.violation(k, "different number of omega solutions", len(ot), len(ol))
                continue
            pt = sorted(zip([float(x) for x in ot], [float(x) for x in (vt[1] if fn != "find_omega" else ot)]))
            pl = sorted(zip([float(x) for x in ol], [float(x) for x in (vl[1] if fn != "find_omega" else ol)]))
            okm = c09.same_set([x[0] for x in pt], [x[0] for x in pl], 1e-7) and c09.same_set([x[1] for x in pt], [x[1] for x in pl], 1e-7)
            if not okm:
                r.violation(k, "omega/eta differ", pt, pl, 1e-7)
            continue
        if isinstance(scale, tuple):
            ok = True
            devs = []
            for a, b, s in zip(vt, vl, scale):
                devs.append(dev(a, b, s))
            d = max(devs)
            lim2 = tol * 100
            if fn == "ub_to_u_b":
                lim2 = max(1e-12 * max(1.0, float(np.linalg.cond(np.asarray(la[0], float)))), tol * 100 if tol > tol0 else 0.0)
            if not d <= lim2:
                model = None
                if fn == "ubi_to_u_and_eps" and devs[0] <= tol * 100:
                    et = np.array(vt[1], float)
                    el = np.array(vl[1], float)
                    iv = np.array([1, 0, 0, 1, 0, 1], float)
                    if float(np.max(np.abs(et - (TP * (el + iv) - iv)))) <= 1e-8 * 50:
                        model = KF
                r.violation(k, "outputs differ beyond the documented 2 pi factor", [np.asarray(x).tolist() for x in vt], [np.asarray(x).tolist() for x in vl], lim2, d, model=model)
            r.upd(fn, d if not (fn == "ubi_to_u_and_eps") else devs[0])
            continue
        d = dev(vt, vl, scale)
        r.upd(fn, d)
        lim = tol * 1000 if fn in ("u_to_rod", "ubi_to_rod", "reduce_cell", "cell_invert", "b_to_cell", "a_to_cell", "ubi_to_cell", "u_to_euler") else tol * 100
        if not d <= lim:
            r.violation(k, "outputs differ beyond the documented 2 pi factor", np.asarray(vt).tolist(), np.asarray(vl).tolist(), lim, d)
    r.states = r.evals
    r.transitions = 2 * r.evals
    return r


def post(tier, seed, cases, results):
    inv = results[-1]["extra"]
    per = {}
    for c, res in zip(cases, results):
        if c["fn"]:
            per[c["fn"]] = per.get(c["fn"], 0) + res["evals"]
    return {"common_functions": inv.get("common"), "unexplored_functions": inv.get("unexplored"), "only_in_tools": inv.get("only_tools"),
            "only_in_laue": inv.get("only_laue"), "comparisons_per_function": per}


def alphabet(tier):
    return {"cells": len(cells(tier)), "rotations": len(rots(tier)), "functions_with_adapter": len(ADAPTED)}


def samples(cases):
    return [cases[0], cases[len(cases) // 2], cases[-2]]
