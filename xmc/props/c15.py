"""C15 - site multiplicity equals the number of symmetry-equivalent positions in the cell.

Complete rational grid x all 237 settings, exact orbit oracle (Fractions)."""
from __future__ import annotations

import itertools
from fractions import Fraction as F

import numpy as np

from .. import alph
from .. import oracles as O
from ..core import CaseResult, bind_repo

PROP = "C15"
LEVEL = "model_checking"
SECOND_SCHEDULE = 0  # stride of the reverse-order history pass (0 = off, 1 = every case)
RULE = ("237 settings x every position of the rational grid {0,1/8,1/6,1/4,1/3,3/8,1/2,5/8,2/3,3/4,5/6,7/8}^3 (1728; the quick tier uses the 7-value sub-grid {0,1/8,1/6,1/4,1/3,1/2,2/3}^3) plus the "
        "(x,x,z), (x,2x,z), (x,-x,z) families with generic x, passed as floats; lattice-shifted copies; lookups by number and by "
        "every dictionary name. Oracle: exact orbit size with Fractions. distinct_nontrivial = distinct (setting, orbit size) "
        "pairs met with orbit size < nsymop (special positions) plus distinct settings met on a general position.")
ASSUMPTIONS = ["translations are multiples of 1/24 (verified by C04)", "a position is passed as a float array, so its coordinates carry a 1e-16 rounding; the orbit is decided on the exact rationals"]

GRID = [F(0), F(1, 8), F(1, 6), F(1, 4), F(1, 3), F(3, 8), F(1, 2), F(5, 8), F(2, 3), F(3, 4), F(5, 6), F(7, 8)]
SUB = [F(0), F(1, 4), F(1, 3), F(1, 2)]
QGRID = [F(0), F(1, 8), F(1, 6), F(1, 4), F(1, 3), F(1, 2), F(2, 3)]
XGEN = [F(1234, 10000), F(2718, 10000)]


def positions(tier):
    pos = [(p, (0, 0, 0)) for p in itertools.product(QGRID if tier == "quick" else GRID, repeat=3)]
    fam = []
    for x in XGEN:
        for z in GRID:
            fam += [(x, x, z), (x, 2 * x, z), (x, -x % 1, z)]
        fam.append((x, F(3141, 10000), F(5926, 10000)))  # general position
    pos += [(p, (0, 0, 0)) for p in fam]
    shifts = [(-1, 0, 2), (2, -1, 0)] if tier == "quick" else [s for s in itertools.product((-1, 0, 2), repeat=3) if s != (0, 0, 0)]
    base = list(itertools.product(SUB, repeat=3)) + fam  # lattice-shifted copies: the 4-value sub-grid and the families (2 shifts quick, 26 thorough)
    for s in shifts:
        pos += [(p, s) for p in base]
    return pos


def cases(tier, seed):
    bind_repo()
    from xfab import sg

    npos = len(positions(tier))
    cs = []
    for no, cc in alph.SETTINGS:
        n = sg.sg(sgno=no, cell_choice=cc).nsymop
        B = max(8, min(npos, 400000 // (n * n)))  # blocks of roughly equal cost (cost/position ~ nsymop^2)
        for lo in range(0, npos, B):
            cs.append({"kind": "number", "no": no, "cc": cc, "tier": tier, "lo": lo, "hi": min(npos, lo + B)})
    cs += [{"kind": "name", "name": name, "tier": tier} for name in sg.sgdic]
    cs += [{"kind": "history", "no": no, "tier": tier} for no in alph.RHOMB]
    cs.append({"kind": "argkinds", "tier": tier})
    for lo in range(0, len(alph.SETTINGS), 8):
        cs.append({"kind": "forms", "lo": lo, "hi": lo + 8, "tier": tier})
    return cs


def check_history(case, r):
    """covering walk (every ordered pair of lookups consecutively) over the ways of naming one R group in its two settings,
    all in one process: a memo keyed on too little shows as a wrong multiplicity on the call after the colliding one"""
    from xfab import sg, structure
    from ..core import covering_walk

    no = case["no"]
    names = O.setting_names(sg.sgdic)
    hexname = [n for n in names[(no, "standard")] if not n.endswith("h")][0]
    ctx = [("sgno,standard", dict(sgno=no), "standard"), ("sgno,rhombohedral", dict(sgno=no, cell_choice="rhombohedral"), "rhombohedral"),
           ("name " + hexname, dict(sgname=hexname), "standard"), ("name " + names[(no, "rhombohedral")][0], dict(sgname=names[(no, "rhombohedral")][0]), "rhombohedral"),
           ("name+cell_choice", dict(sgname=hexname, cell_choice="rhombohedral"), "rhombohedral"), ("sgno 2", dict(sgno=2), None)]
    opsets = {cc: O.exact_ops(sg.sg(sgno=no, cell_choice=cc)) for cc in ("standard", "rhombohedral")}
    opsets[None] = O.exact_ops(sg.sg(sgno=2))
    pts = [(F(1, 8), F(1, 4), F(3, 8)), (F(0), F(0), F(0)), (F(1, 3), F(2, 3), F(1, 6)), (F(1234, 10000), F(1234, 10000), F(1234, 10000))]
    walk = covering_walk(len(ctx))
    prev = None
    for step, ci in enumerate(walk):
        label, kw, cc = ctx[ci]
        p = pts[step % len(pts)]
        ref = len(O.orbit(opsets[cc], p))
        try:
            got = structure.multiplicity(np.array([float(x) for x in p]), **kw)
        except Exception as ex:
            got = repr(ex)
        r.evals += 1
        r.transitions += 1
        if got != ref:
            r.violation("history:Sg%d:step%d:%s after %s:pos=%s" % (no, step, label, prev, ",".join(map(str, p))),
                        "multiplicity does not depend on the calls made before", ref, got)
        r.nontrivial.add("hist:%d:%s>%s" % (no, prev, label))
        prev = label
    r.states = len(ctx)


def check_argkinds(case, r):
    """the same position given as list of Python ints, tuple, int array, float32 array, list of floats, Fortran/0-strided views"""
    from xfab import sg, structure

    groups = [("p21/c", None), ("c2", None), ("pnma", None), ("p-1", None), ("p3", None), ("fd-3m", None)]
    pts = [(0, 0, 0), (1, 0, -1), (0, 1, 0)]
    for name, _ in groups:
        g = sg.sg(sgname=name)
        ops = O.exact_ops(g)
        for p in pts:
            ref = len(O.orbit(ops, tuple(F(x) for x in p)))
            kinds = [("list-int", list(p)), ("tuple-int", tuple(p)), ("int64", np.array(p, dtype=np.int64)), ("int32", np.array(p, dtype=np.int32)),
                     ("float32", np.array(p, dtype=np.float32)), ("list-float", [float(x) for x in p]), ("float64", np.array(p, float))]
            for kn, arg in kinds:
                try:
                    got = structure.multiplicity(arg, name)
                except Exception as ex:
                    got = repr(ex)
                r.evals += 1
                if got != ref:
                    r.violation("argkind:%s:%s:%s" % (name, p, kn), "multiplicity is the same for a %s position" % kn, ref, got)
                r.nontrivial.add("argkind:%s:%s" % (name, kn))
        # half-integer positions as float32 (exactly representable)
        for p in ((0.5, 0.25, 0.0), (0.125, 0.5, 0.75)):
            ref = len(O.orbit(ops, tuple(F(x).limit_denominator(8) for x in p)))
            got = structure.multiplicity(np.array(p, dtype=np.float32), name)
            r.evals += 1
            if got != ref:
                r.violation("argkind:%s:%s:float32" % (name, p), "multiplicity is the same for a float32 position", ref, got)
    r.states = 1


def check_case(case):
    from xfab import sg, structure

    r = CaseResult()
    tier = case["tier"]
    if case["kind"] == "history":
        check_history(case, r)
        return r
    if case["kind"] == "argkinds":
        check_argkinds(case, r)
        return r
    if case["kind"] == "forms":
        # every way of asking for a setting (oracles.group_forms: number / Hermann-Mauguin name from the harness's own table, compact and
        # spaced / R suffixes / explicit cell_choice), by keyword and positionally, x positions in every container kind
        from ..core import variants

        pts = [(F(0), F(0), F(0)), (F(1, 3), F(2, 3), F(1, 4)), (F(1, 2), F(0), F(1, 4)), (XGEN[0], F(3141, 10000), F(5926, 10000))]
        for no, cc in alph.SETTINGS[case["lo"]:case["hi"]]:
            ops = O.exact_ops(sg.sg(sgno=no, cell_choice=cc))
            for pi, pt in enumerate(pts):
                ref = len(O.orbit(ops, pt))
                pf = [float(x) for x in pt]
                for lab, kw in O.group_forms(no, cc):
                    for form, thunk in (("keyword", lambda: structure.multiplicity(np.array(pf), **kw)),
                                        ("positional", lambda: structure.multiplicity(pf, kw.get("sgname"), kw.get("sgno"), kw.get("cell_choice", "standard"))),
                                        ("all-keywords", lambda: structure.multiplicity(position=tuple(pf), sgname=kw.get("sgname"), sgno=kw.get("sgno"), cell_choice=kw.get("cell_choice", "standard")))):
                        try:
                            got = thunk()
                        except Exception as ex:
                            got = repr(ex)
                        r.evals += 1
                        if got != ref:
                            r.violation("forms:Sg%d/%s:%s:%s:pos=%s" % (no, cc, lab, form, ",".join(map(str, pt))), "multiplicity of the group the caller asked for, however it was asked", ref, got)
                r.nontrivial.add("forms:Sg%d/%s:m%d" % (no, cc, ref))
            # valid extremes: the same dyadic positions far away from the origin cell (lattice shifts of 1e3 .. 1e6 cells, both signs)
            for pt in ((F(0), F(0), F(0)), (F(1, 2), F(0), F(1, 4)), (F(1, 8), F(3, 8), F(5, 8))):
                ref = len(O.orbit(ops, pt))
                for K in ((1000, 0, -1000), (100000, -100000, 100000), (-1000000, 1000000, 3)):
                    pf = np.array([float(pt[i]) + K[i] for i in range(3)])
                    try:
                        got = structure.multiplicity(pf, sgno=no, cell_choice=cc)
                    except Exception as ex:
                        got = repr(ex)
                    r.evals += 1
                    if got != ref:
                        r.violation("forms:Sg%d/%s:pos=%s+%s" % (no, cc, ",".join(map(str, pt)), K), "multiplicity is invariant under lattice translations of any size", ref, got)
            # a caller edits the arrays of an sg object of its own (e.g. keeps the point-group part only): later multiplicity calls are unaffected
            from ..core import scribble

            mine = sg.sg(sgno=no, cell_choice=cc)
            for arr in (mine.rot, mine.trans):
                scribble(arr)
            try:
                mine.trans[:] = 0
            except Exception:  # noqa: BLE001
                pass
            pt = pts[2]
            try:
                got = structure.multiplicity(np.array([float(x) for x in pt]), sgno=no, cell_choice=cc)
            except Exception as ex:
                got = repr(ex)
            r.evals += 1
            if got != len(O.orbit(ops, pt)):
                r.violation("forms:Sg%d/%s:after-edit-of-own-sg-object" % (no, cc), "multiplicity does not depend on edits a caller made to the arrays of another sg object", len(O.orbit(ops, pt)), got)
            variants(r, "forms:Sg%d/%s:position kinds" % (no, cc), structure.multiplicity, [[0.5, 0.0, 0.25], None, no, cc], 0, 0, 0)
            variants(r, "forms:Sg%d/%s:position kinds" % (no, cc), structure.multiplicity, [[0.0, 1.0, -1.0], None, no, cc], 0, 0, 0)
        r.states = case["hi"] - case["lo"]
        r.transitions = r.evals
        return r
    if case["kind"] == "number":
        no, cc = case["no"], case["cc"]
        g = sg.sg(sgno=no, cell_choice=cc)
        cc_rt = "".join(list(cc))  # a string equal to the literal but built at run time (identity comparisons with literals would fail)
        call = lambda pf: structure.multiplicity(pf, sgno=no, cell_choice=cc_rt)
        tag = "Sg%d/%s" % (no, cc)
        pos = positions(tier)[case["lo"]:case["hi"]]
    else:
        name = case["name"]
        known = O.name_to_setting().get(name)  # which group the name DENOTES (harness table); unknown aliases: whatever group the library maps them to
        g = sg.sg(sgno=known[0], cell_choice=known[1]) if known else sg.sg(sgname=name)
        name_rt = "".join(list(name))
        call = lambda pf: structure.multiplicity(pf, sgname=name_rt)
        tag = "name:%s" % name
        pos = [(p, (0, 0, 0)) for p in itertools.product(SUB if tier == "quick" else GRID, repeat=3)]
        pos.append(((XGEN[0], F(3141, 10000), F(5926, 10000)), (0, 0, 0)))
    ops = O.exact_ops(g)
    for p, s in pos:
        ref = len(O.orbit(ops, p))
        pf = np.array([float(p[i]) + s[i] for i in range(3)])
        key = "%s:%s%s" % (tag, ",".join(str(x) for x in p), "" if s == (0, 0, 0) else "+%d,%d,%d" % s)
        try:
            got = call(pf)
        except Exception as ex:
            got = repr(ex)
        r.evals += 1
        if got != ref:
            r.violation(key, "multiplicity != exact orbit size", ref, got)
        if g.nsymop % ref != 0:
            r.violation(key + ":oracle", "oracle orbit size does not divide nsymop", g.nsymop, ref)
        r.nontrivial.add("%s:m%d" % (tag, ref))
    r.states = len(pos)
    r.transitions = len(pos) * g.nsymop
    r.traces = len(pos)
    return r


def alphabet(tier):
    return {"grid": [str(x) for x in (QGRID if tier == "quick" else GRID)], "positions_per_setting": len(positions(tier)), "settings": 237, "names": 244}


def samples(cases):
    p = positions(cases[0]["tier"])
    return [cases[0], cases[len(cases) // 2], cases[-3], {"position": [str(x) for x in p[300][0]], "shift": p[300][1]},
            {"position": [str(x) for x in p[-1][0]], "shift": p[-1][1]}]
