"""C16 - atomic form factors are physical: f(0) = Z, positive and decreasing."""
from __future__ import annotations

import math

from .. import oracles as O
from ..core import CaseResult, bind_repo, variants

PROP = "C16"
LEVEL = "model_checking"
RULE = ("every entry of xfab.atomlib.formfactor (complete table) x every s on the grid {0, 0.005, ..., 2} (quick) / "
        "{0, 0.001, ..., 2} (thorough): FormFactor(el, s) against sum a_i exp(-b_i s^2) + c written out in the harness, "
        "|f(0) - Z| <= 0.1 with Z from the harness' periodic table, f > 0, f decreasing (decided analytically when every "
        "a_i b_i >= 0, else on the grid). distinct_nontrivial = distinct (element, clause) pairs.")
ASSUMPTIONS = ["atomic numbers from the harness' own periodic table (H..Pu)", "math.exp", "the grid decides positivity between grid points only up to its spacing (f is smooth; spacing 0.005 / 0.001)"]


def grid(tier):
    n = 400 if tier == "quick" else 2000
    return [2.0 * i / n for i in range(n + 1)]


def cases(tier, seed):
    bind_repo()
    from xfab import atomlib

    cs = [{"el": el, "tier": tier} for el in atomlib.formfactor]
    cs.sort(key=lambda c: O.Z.get(c["el"], 999))
    cs.append({"el": None, "tier": tier})
    return cs


def check_case(case):
    from xfab import atomlib, structure

    r = CaseResult()
    el = case["el"]
    if el is None:
        keys = set(atomlib.formfactor)
        r.require(all(k in O.Z for k in keys), "table:elements", "every key of the table is an element symbol", None, sorted(keys - set(O.Z)))
        r.require(all(len(v) == 9 for v in atomlib.formfactor.values()), "table:nine", "nine coefficients per entry")
        r.nontrivial.add("table")
        r.states = 1
        return r
    coef = [float(x) for x in atomlib.formfactor[el]]
    # interaction with the file readers: a CIF whose atom-type loop lists THIS element with dispersion terms and (made-up) Cromer-Mann
    # coefficients is read first, in this process; the table and everything FormFactor returns below must be what they were
    import os
    import shutil
    import tempfile

    tmp = tempfile.mkdtemp(prefix="xmc_c16_", dir="/dev/shm" if os.path.isdir("/dev/shm") else None)
    try:
        sym = el[0] + el[1:].lower()
        txt = "\n".join(["data_blk", "_symmetry_space_group_name_H-M   'P 21/c'", "_cell_length_a 8.5312", "_cell_length_b 4.8321", "_cell_length_c 10.1250",
                         "_cell_angle_alpha 90.0", "_cell_angle_beta 92.031", "_cell_angle_gamma 90.0", "loop_", "_atom_type_symbol", "_atom_type_scat_dispersion_real",
                         "_atom_type_scat_dispersion_imag"] + ["_atom_type_scat_Cromer_Mann_%s" % k_ for k_ in ("a1", "a2", "a3", "a4", "b1", "b2", "b3", "b4", "c")]
                        + ["'%s' 0.0033 0.0016 1.1 2.2 3.3 0.4 10.5 20.6 30.7 40.8 0.9" % sym, "loop_", "_atom_site_label", "_atom_site_type_symbol", "_atom_site_fract_x",
                           "_atom_site_fract_y", "_atom_site_fract_z", "_atom_site_U_iso_or_equiv", "_atom_site_adp_type", "%s1 %s 0.10603 0.2035 0.5 0.0171 Uiso" % (sym, sym)]) + "\n"
        fn = os.path.join(tmp, "e.cif")
        with open(fn, "w") as fh:
            fh.write(txt)
        try:
            structure.build_atomlist().CIFread(fn)
        except Exception:  # the reader has its own property (C17); here only its after-effects on the form-factor table matter
            pass
    finally:
        shutil.rmtree(tmp, ignore_errors=True)
    r.require([float(x) for x in atomlib.formfactor[el]] == coef, el + ":table-after-cif", "reading a CIF that lists this element leaves the form-factor table as it was", coef,
              [float(x) for x in atomlib.formfactor[el]])
    z = O.Z.get(el)
    r.require(z is not None, el + ":Z", "element symbol known", None, el)
    if z is None:
        return r
    g = grid(case["tier"])
    f0 = structure.FormFactor(el, 0.0)
    r.check("f0-Z", abs(f0 - z), 0.1, el + ":f0", "|f(0) - Z| <= 0.1", z, f0)
    r.nontrivial.add(el + ":f0")
    prev = None
    worst = 0.0
    for s in g:
        f = float(structure.FormFactor(el, s))
        ref = O.formfactor_ref(coef, s)
        worst = max(worst, abs(f - ref) / max(1.0, abs(ref)))
        r.evals += 1
        if not f > 0:
            r.violation(el + ":positive", "f(s) > 0 on [0,2]", "> 0", {"s": s, "f": f})
            break
        if prev is not None and not f < prev:
            r.violation(el + ":decreasing", "f decreases with s", "< %r" % prev, {"s": s, "f": f})
            break
        prev = f
    r.check("formula", worst, 1e-12, el + ":formula", "FormFactor = sum a_i exp(-b_i s^2) + c", None, worst)
    # the decimal grid is blind to an argument rounded to a few decimals: the same on values with no round digits, and strict decrease
    # between points 3e-7 apart (a staircase in s would be flat there)
    for s0 in (1.0 / 3.0, math.sqrt(2) / 2, 0.1234567891, math.pi / 10, 1.9999994, math.e / 2, 0.05 + 1e-7 / 3):
        f = float(structure.FormFactor(el, s0))
        ref = O.formfactor_ref(coef, s0)
        r.check("formula-unround", abs(f - ref) / max(1.0, abs(ref)), 1e-12, el + ":formula:s=%r" % s0, "FormFactor at an s with no round digits", ref, f)
        f1, f2 = float(structure.FormFactor(el, s0 + 1e-7)), float(structure.FormFactor(el, s0 + 4e-7))
        d_ref = O.formfactor_ref(coef, s0 + 1e-7) - O.formfactor_ref(coef, s0 + 4e-7)
        if d_ref > 1e-12:
            r.require(f1 > f2, el + ":decreasing-fine:s=%r" % s0, "f decreases between s+1e-7 and s+4e-7", "f1 > f2", [f1, f2])
    # the same formula for every kind of argument the function accepts today: numpy scalar, 0-d array, 1-d array, list-derived array
    import numpy as np

    ga = np.array(g)
    refa = np.array([O.formfactor_ref(coef, s) for s in g])
    kinds = [("ndarray", ga), ("float64", np.float64(g[7])), ("0-d array", np.array(g[7])), ("2-d array", ga[:6].reshape(2, 3)), ("float32 array", ga[:50].astype(np.float32)),
             ("int 0", 0), ("int 1", 1), ("int 2", 2), ("np.int64", np.int64(1)), ("int array", np.arange(3)), ("bool", True), ("list-derived int array", np.array([0, 1, 2])),
             ("uint8 array", np.array([0, 1, 2], dtype=np.uint8))]
    for nm, arg in kinds:
        try:
            out = np.asarray(structure.FormFactor(el, arg), float)
            want = np.array([O.formfactor_ref(coef, float(s)) for s in np.asarray(arg, float).reshape(-1)]).reshape(np.shape(arg))
            dv = float(np.max(np.abs(out - want) / np.maximum(1.0, np.abs(want)))) if out.shape == want.shape else float("inf")
        except Exception as ex:
            dv = float("inf")
            out = repr(ex)
        r.check("formula-" + nm, dv, 1e-6 if nm == "float32 array" else 1e-12, el + ":formula:" + nm, "FormFactor = sum a_i exp(-b_i s^2) + c for %s argument" % nm, None, out if isinstance(out, str) else None)
    # memory layouts and containers of a non-symmetric 2-d / 3-d map of s values (detector images are often transposed views or Fortran
    # ordered): element [i, j] of the result must be the form factor of element [i, j] of the argument.  Lists and tuples are not
    # accepted by the unchanged library (stl*stl) and are left out; positionally and by keyword.
    nolist = ("list", "tuple", "int list", "int tuple", "list of np.float64")
    m2 = np.array([[0.0, 0.05, 0.31], [0.72, 1.1, 1.93]])
    m3 = np.arange(24, dtype=float).reshape(2, 3, 4) / 12.0
    mi = np.array([[0.0, 1.0, 2.0], [2.0, 0.0, 1.0]])
    for tag, m in (("2-d", m2), ("3-d", m3), ("whole-number 2-d", mi), ("1-d", m2[1])):
        want = np.vectorize(lambda s_: O.formfactor_ref(coef, float(s_)))(m)
        out = np.asarray(structure.FormFactor(el, m), float)
        r.check("formula-" + tag, float(np.max(np.abs(out - want) / np.maximum(1.0, np.abs(want)))) if out.shape == want.shape else float("inf"), 1e-12,
                el + ":formula:" + tag, "FormFactor element by element on a %s array" % tag)
        variants(r, el + ":FormFactor(%s)" % tag, structure.FormFactor, [el, m], 1, 1e-12, 1e-5, skip=nolist)
    variants(r, el + ":FormFactor(scalar)", structure.FormFactor, [el, 0.25], 1, 1e-12, 1e-5)
    variants(r, el + ":FormFactor(scalar 1)", structure.FormFactor, [el, 1.0], 1, 1e-12, 1e-5)
    # history: one work buffer reused with different contents (a memo keyed on object identity would return stale values),
    # and the same buffer used for another element in between
    from ..core import reuse

    buf = np.array([0.0, 0.5, 1.0])
    other = "FE" if el != "FE" else "C"

    def mutate(b):
        structure.FormFactor(other, b)
        b += 0.25

    reuse(r, el + ":buffer", lambda b: structure.FormFactor(el, b), buf, mutate,
          lambda out: not isinstance(out, Exception) and np.allclose(np.asarray(out, float), [O.formfactor_ref(coef, s) for s in (0.25, 0.75, 1.25)], rtol=1e-12, atol=0),
          "FormFactor evaluates the formula for the CURRENT contents of a reused array")
    for k in range(3):
        tmp = np.array([0.1 * (k + 1)])
        out = structure.FormFactor(el, tmp)
        r.check("formula-temporaries", abs(float(np.asarray(out).reshape(-1)[0]) - O.formfactor_ref(coef, 0.1 * (k + 1))), 1e-12, el + ":temporary%d" % k,
                "FormFactor on short-lived temporaries (object addresses get reused)")
        del tmp
    # analytic monotonicity: f'(s) = -2 s sum a_i b_i exp(-b_i s^2) < 0 for s>0 if all a_i b_i >= 0 and one > 0
    ab = [coef[i] * coef[i + 4] for i in range(4)]
    if all(x >= 0 for x in ab) and any(x > 0 for x in ab):
        r.nontrivial.add(el + ":monotone-analytic")
    else:
        r.nontrivial.add(el + ":monotone-grid")
        # derivative sign on the grid as well
        for s in g[1:]:
            d = -2 * s * sum(ab[i] * math.exp(-coef[i + 4] * s * s) for i in range(4))
            r.evals += 1
            if not d < 0:
                r.violation(el + ":derivative", "f'(s) < 0 on (0,2]", "< 0", {"s": s, "df": d})
                break
    # f(2) should still be positive and well below f(0): limit value c + small gaussians
    r.require(coef[8] + sum(coef[i] * math.exp(-coef[i + 4] * 4.0) for i in range(4)) > 0, el + ":tail", "f(2) > 0")
    r.states = len(g)
    r.transitions = len(g)
    r.traces = len(g)
    return r


def alphabet(tier):
    g = grid(tier)
    return {"elements": 94, "s_points": len(g), "s_step": g[1]}


def samples(cases):
    return [cases[0], cases[25], cases[-2], {"s_grid_head": grid(cases[0]["tier"])[:4]}]
