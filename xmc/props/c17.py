"""C17 - CIF and PDB ingestion reproduces what the file states.

Files are generated from a model structure in the harness; the reader's output is compared with the model."""
from __future__ import annotations

import itertools
import math
import os
import shutil
import tempfile

import numpy as np

from .. import alph
from .. import oracles as O
from ..core import CaseResult, bind_repo

PROP = "C17"
LEVEL = "exploration"
RULE = ("CIF: the full product ADP form {Uiso,Uani,Biso,Bani,absent,mixed} x esds {off,on} x occupancy column {present,absent} x multiplicity "
        "key {absent, _atom_site_symmetry_multiplicity, _atom_site_symetry_multiplicity} x atom-type loop {with dispersion, without, absent} "
        "x extra global block {no,yes} (432 files) x cells (1 quick / 3 thorough) x atom counts {1,3,12}; every dictionary symbol spelled with "
        "and without blanks. PDB: CRYST1/SCALE/ATOM/HETATM records in fixed columns for every space-group symbol in PDB spelling (with the "
        "'1' place-holders of the full monoclinic symbols), orthogonal and oblique SCALE matrices, occupancies and B values on a grid. "
        "Oracle: the generating model. distinct_nontrivial = distinct generated files.")
ASSUMPTIONS = ["PyCifRW's parser is trusted for CIF syntax", "numbers are written with a fixed number of decimals and the expected value is the float of the written text",
               "expected PDB name = dictionary key of the group the symbol denotes (P 1 21/c 1 -> p21/c, P 1 -> p1, P 3 1 2 -> p312): a '1' that is part of "
               "the short Hermann-Mauguin symbol is not a place-holder", "multiplicity when absent from the file: compared with structure.multiplicity "
               "called directly on the same position (the number itself is C15's subject)"]

P8 = 8 * math.pi ** 2

ATOMS = [("C1", "C", (0.10603, -0.2035, 0.5), 0.0171, (0.0137, 0.0188, 0.0186, 0.0017, -0.0026, 0.0007), 1.0, 4),
         # coordinates that LOOK like special fractions but are what the file states: 0.3333 is not 1/3
         ("Fe2", "Fe", (0.3333, 0.6667, -0.125), 0.0271, (0.021, 0.022, 0.023, 0.001, 0.002, -0.003), 0.5, 2),
         ("O3", "O", (0.16667, 0.5, 0.8333), 0.0333, (0.031, 0.032, 0.033, -0.001, 0.0, 0.003), 0.75, 2)]
# Cromer-Mann coefficients an atom-type loop may carry (made-up numbers: nothing may copy them into the library's own table)
CROMER = ["_atom_type_scat_Cromer_Mann_%s" % k for k in ("a1", "a2", "a3", "a4", "b1", "b2", "b3", "b4", "c")]
DISP = {"C": (0.0033, 0.0016), "Fe": (0.3463, 0.8444), "O": (0.0106, 0.006), "S": (0.1246, 0.1234), "Cu": (0.3201, 1.2651)}
CELLS = [(8.5312, 4.8321, 10.125, 90.0, 92.031, 90.0), (5.4307, 5.4307, 5.4307, 90.0, 90.0, 90.0), (7.123, 9.87, 12.001, 81.25, 97.5, 104.75)]


def atoms_n(n):
    if n <= 3:
        return ATOMS[:n]
    out = list(ATOMS)
    els = ["C", "Fe", "O", "S", "Cu"]
    for i in range(3, n):
        el = els[i % 5]
        out.append(("%s%d" % (el, i + 1), el, (round(0.013 * i + 0.01, 5), round(0.9 - 0.071 * i, 5), round(-0.2 + 0.043 * i, 5)), round(0.01 + 0.002 * i, 4),
                    tuple(round(0.01 + 0.001 * i + 0.0005 * k, 4) * (1 if k < 3 else 0.1) for k in range(6)), round(1.0 - 0.05 * i, 2), 4))
    return out


NUMFMT = "fixed"  # how numbers are written: fixed | exp | plus | nozero (switched by the 'formats' cases)


def fmt(x, nd):
    s = ("%." + str(nd) + "f") % x
    if NUMFMT == "exp":
        return ("%." + str(nd + 3) + "e") % float(s)
    if NUMFMT == "plus":
        return s if s.startswith("-") else "+" + s
    if NUMFMT == "nozero":
        return s.replace("0.", ".", 1) if s.startswith("0.") else (s.replace("-0.", "-.", 1) if s.startswith("-0.") else s)
    return s


def esd(x, on, nd=4):
    s = fmt(x, nd)
    return s + "(3)" if on else s


def gen_cif(cfg, sym="P 21/c", cell=CELLS[0], natoms=3):
    """-> (text, expectation dict)"""
    adp, es, occ_on, mkey, tloop, glob = cfg
    atoms = atoms_n(natoms)
    L = []
    glob_last = glob and es  # the extra 'global' block comes before the data block in half of the files that have one, after it in the others
    if glob and not glob_last:
        L += ["data_global", "_audit_creation_method 'x'", ""]
    L += ["data_blk", "_symmetry_space_group_name_H-M   '%s'" % sym]
    exp_cell = []
    for k, v in zip(("length_a", "length_b", "length_c", "angle_alpha", "angle_beta", "angle_gamma"), cell):
        L.append("_cell_%s  %s" % (k, esd(v, es and k.startswith("length"))))
        exp_cell.append(float(fmt(v, 4)))
    els = []
    for a in atoms:
        if a[1] not in els:
            els.append(a[1])
    if tloop != "absent":
        cm = tloop == "disp" and glob  # half of the files with dispersion terms also carry Cromer-Mann coefficients in the same loop
        L += ["loop_", "_atom_type_symbol"] + (["_atom_type_scat_dispersion_real", "_atom_type_scat_dispersion_imag"] if tloop == "disp" else ["_atom_type_description"])
        if cm:
            L += CROMER
        for el in els:
            fp, fpp = DISP[el]
            L.append(("'%s' %s %s" % (el, esd(fp, es), fmt(fpp, 4)) if tloop == "disp" else "'%s' '%s'" % (el, el))
                     + (" 1.1 2.2 3.3 0.4 10.5 20.6 30.7 40.8 0.9" if cm else ""))
    L += ["loop_", "_atom_site_label", "_atom_site_type_symbol", "_atom_site_fract_x", "_atom_site_fract_y", "_atom_site_fract_z"]
    base = {"Uiso": ["Uiso"], "Uani": ["Uani"], "Biso": ["Biso"], "Bani": ["Bani"], "absent": [None], "mixed": ["Uani", "Uiso", "Biso"]}[adp]
    kinds = [base[i % len(base)] for i in range(len(atoms))]
    anyU = any(k in ("Uiso", "Uani") for k in kinds)
    anyB = any(k in ("Biso", "Bani") for k in kinds)
    if adp != "absent":
        if anyU:
            L.append("_atom_site_U_iso_or_equiv")
        if anyB:
            L.append("_atom_site_B_iso_or_equiv")
        L.append("_atom_site_adp_type")
    if occ_on:
        L.append("_atom_site_occupancy")
    if mkey:
        L.append(mkey)
    exp = []
    for (lab, el, pos, uiso, uani, occ, mult), k in zip(atoms, kinds):
        row = [lab, el] + [esd(x, es, 5) for x in pos]
        if adp != "absent":
            if anyU:
                row.append(esd(uiso, es))
            if anyB:
                row.append(esd(uiso * P8, es))
            row.append(k)
        if occ_on:
            row.append(esd(occ, es, 2))
        if mkey:
            row.append(str(mult))
        L.append(" ".join(row))
        e = dict(label=lab, atomtype=el.upper(), pos=[float(fmt(x, 5)) for x in pos], occ=float(fmt(occ, 2)) if occ_on else 1.0, symmulti=float(mult) if mkey else None)
        if k is None:
            e.update(adp_type=None, adp=0.0)
        elif k == "Uiso":
            e.update(adp_type="Uiso", adp=float(fmt(uiso, 4)))
        elif k == "Biso":
            e.update(adp_type="Uiso", adp=float(fmt(uiso * P8, 4)) / P8)
        elif k == "Uani":
            e.update(adp_type="Uani", adp=[float(fmt(u, 4)) for u in uani])
        elif k == "Bani":
            e.update(adp_type="Uani", adp=[float(fmt(u * P8, 4)) / P8 for u in uani])
        exp.append(e)
    for pre, ks in (("U", [a for a, k in zip(atoms, kinds) if k == "Uani"]), ("B", [a for a, k in zip(atoms, kinds) if k == "Bani"])):
        if ks:
            L += ["loop_", "_atom_site_aniso_label"] + ["_atom_site_aniso_%s_%s" % (pre, ij) for ij in ("11", "22", "33", "23", "13", "12")]
            for a in ks:
                L.append(a[0] + " " + " ".join(esd(u * (P8 if pre == "B" else 1), es) for u in a[4]))
    if tloop == "disp":
        disp = {el.upper(): [float(fmt(DISP[el][0], 4)), float(fmt(DISP[el][1], 4))] for el in els}
    else:
        disp = {el.upper(): None for el in els}
    if glob_last:
        L += ["", "data_global", "_audit_creation_method 'x'"]
    return "\n".join(L) + "\n", {"cell": exp_cell, "sgname": "".join(sym.split()), "atoms": exp, "dispersion": disp}


CONFIGS = list(itertools.product(["Uiso", "Uani", "Biso", "Bani", "absent", "mixed"], [False, True], [True, False],
                                 [None, "_atom_site_symmetry_multiplicity", "_atom_site_symetry_multiplicity"], ["disp", "nodisp", "absent"], [False, True]))

# ----------------------------------------------------------------------------- PDB symbols

def pdb_symbols():
    """(compact name, PDB spelling, crystal system) of the 230 groups from the harness's own Hermann-Mauguin table (oracles.HM):
    full monoclinic symbols with '1' place-holders ('P 1 21/c 1'), trigonal symbols whose '1' belongs to the symbol ('P 3 1 2')."""
    rng = [(2, "triclinic"), (15, "monoclinic"), (74, "orthorhombic"), (142, "tetragonal"), (167, "trigonal"), (194, "hexagonal"), (230, "cubic")]
    out = []
    for no in range(1, 231):
        csys = next(nm for hi, nm in rng if no <= hi)
        out.append((O.hm_compact(no), O.hm_pdb(no), csys))
    return out


def gen_pdb(symbol, cell, scale, atoms):
    """atoms: (record, serial, name, element, xyz orthogonal, occ, B)"""
    L = ["HEADER    TEST STRUCTURE", "CRYST1%9.3f%9.3f%9.3f%7.2f%7.2f%7.2f %-11s%4d" % (cell + (symbol, 4))]
    for i in range(3):
        L.append("SCALE%d    %10.6f%10.6f%10.6f     %10.5f" % (i + 1, scale[i][0], scale[i][1], scale[i][2], scale[i][3]))
    for rec, ser, name, el, xyz, occ, b in atoms:
        L.append("%-6s%5d %-4s %3s %1s%4d    %8.3f%8.3f%8.3f%6.2f%6.2f          %2s" % (rec, ser, name, "LIG", "A", 1, xyz[0], xyz[1], xyz[2], occ, b, el))
    L.append("END")
    return "\n".join(L) + "\n"


# ----------------------------------------------------------------------------- cases


def cases(tier, seed):
    cs = []
    cells = CELLS[:1] if tier == "quick" else CELLS
    for ci, cell in enumerate(cells):
        for lo in range(0, len(CONFIGS), 12):
            cs.append({"kind": "cif", "cell": ci, "lo": lo, "hi": lo + 12, "natoms": 3})
    for n in (1, 12):
        for lo in range(0, len(CONFIGS), 12):
            cs.append({"kind": "cif", "cell": 2 if tier == "thorough" else 0, "lo": lo, "hi": lo + 12, "natoms": n})
    for f_ in ("exp", "plus", "nozero"):
        for lo in range(0, len(CONFIGS), 48):
            cs.append({"kind": "cif", "cell": 0, "lo": lo, "hi": lo + 48, "natoms": 3, "numfmt": f_})
    cs.append({"kind": "cif-history", "tier": tier})
    syms = pdb_symbols()
    for lo in range(len(syms) - 1, 191, -1):  # cubic symbols (costly multiplicities) one per case, first
        cs.append({"kind": "cif-symbols", "lo": lo, "hi": lo + 1})
    for lo in range(0, 192, 4):
        cs.append({"kind": "cif-symbols", "lo": lo, "hi": lo + 4})
    for lo in range(len(syms) - 1, -1, -1):  # one symbol per case, the costly cubic groups first
        cs.append({"kind": "pdb", "lo": lo, "hi": lo + 1, "tier": tier})
    return cs


def close(a, b):
    if a is None or b is None:
        return a is None and b is None
    if isinstance(b, (list, tuple)):
        try:
            return len(a) == len(b) and all(close(x, y) for x, y in zip(a, b))
        except TypeError:
            return False
    if isinstance(b, float) or isinstance(b, int):
        try:
            return abs(float(a) - float(b)) <= 1e-12 * max(1.0, abs(float(b)))
        except (TypeError, ValueError):
            return False
    return a == b


def compare_atomlist(r, key, al, exp, structure, sgname_for_mult):
    r.require(close(al.cell, exp["cell"]), key + ":cell", "cell as stated in the file", exp["cell"], al.cell)
    r.require(al.sgname == exp["sgname"], key + ":sgname", "space-group symbol with whitespace removed", exp["sgname"], al.sgname)
    r.require(al.dispersion == exp["dispersion"] or (set(al.dispersion) == set(exp["dispersion"]) and all(close(al.dispersion[k], exp["dispersion"][k]) for k in exp["dispersion"])),
              key + ":dispersion", "dispersion terms from the atom-type loop (None when absent)", exp["dispersion"], al.dispersion)
    r.require(len(al.atom) == len(exp["atoms"]), key + ":natoms", "number of atoms", len(exp["atoms"]), len(al.atom))
    for at, e in zip(al.atom, exp["atoms"]):
        for k, v in e.items():
            w = getattr(at, k)
            if k == "symmulti" and v is None:
                try:
                    v = structure.multiplicity(e["pos"], sgname_for_mult)
                except Exception as ex:
                    v = "multiplicity raised %r" % (ex,)
            ok = close(w, v) if k != "pos" else close(list(w), v)
            r.require(ok, "%s:%s:%s" % (key, e["label"], k), "atom field %s as stated in the file" % k, v, w if not isinstance(w, np.ndarray) else w.tolist())


def check_case(case):
    from xfab import sg, structure

    r = CaseResult()
    tmp = tempfile.mkdtemp(prefix="xmc_c17_", dir="/dev/shm" if os.path.isdir("/dev/shm") else None)
    global NUMFMT
    NUMFMT = case.get("numfmt", "fixed")
    try:
        if case["kind"] == "cif-history":
            # one process reads files with DIFFERENT element sets one after the other (covering walk: every ordered pair of
            # file kinds consecutively); each result is compared with its own file, and every earlier result is re-verified
            # after each later read (nothing may be shared between the atom lists of different files)
            from ..core import covering_walk

            kinds = [(1, ("Uiso", False, True, None, "disp", False)), (3, ("Uani", True, True, None, "disp", True)), (12, ("mixed", False, False, None, "disp", False)),
                     (2, ("Biso", False, True, "_atom_site_symmetry_multiplicity", "nodisp", False)), (12, ("Uiso", True, True, None, "absent", False))]
            held = []
            builders = []
            for step, ki in enumerate(covering_walk(len(kinds))):
                n_at, cfg = kinds[ki]
                txt, exp = gen_cif(cfg, cell=CELLS[step % 3], natoms=n_at)
                fn = os.path.join(tmp, "h%d.cif" % step)
                with open(fn, "w") as f:
                    f.write(txt)
                key = "cif-history:step%d:kind%d" % (step, ki)
                b = structure.build_atomlist()
                b.CIFread(fn)
                compare_atomlist(r, key, b.atomlist, exp, structure, "P21/c")
                # builders that have read earlier files are used to OPEN this file (the block goes to a fresh builder): what they read
                # before - the atom lists their callers hold - must stay what it was
                for pb, pk, pexp in builders[-2:]:
                    blk = pb.CIFopen(fn)
                    nb = structure.build_atomlist()
                    nb.CIFread(cifblk=blk)
                    compare_atomlist(r, key + ":block-opened-by-a-used-builder", nb.atomlist, exp, structure, "P21/c")
                builders.append((b, key, exp))
                held.append((key, b.atomlist, exp))
                for hk, hal, hexp in held[-4:-1]:
                    compare_atomlist(r, hk + ":re-verified-after-step%d" % step, hal, hexp, structure, "P21/c")
                r.states += 1
            # PDB after CIF and CIF after PDB in the same process
            atoms = [("ATOM", 1, "S1", "S", (1.0, 2.0, 3.0), 1.0, 10.0), ("HETATM", 2, "CU2", "CU", (-1.0, 2.5, 3.0), 0.5, 20.0)]
            cellp = (10.0, 12.5, 20.0, 90.0, 90.0, 90.0)
            fnp = os.path.join(tmp, "h.pdb")
            with open(fnp, "w") as f:
                f.write(gen_pdb("P 1 21/c 1", cellp, [[0.1, 0, 0, 0], [0, 0.08, 0, 0], [0, 0, 0.05, 0]], atoms))
            bp = structure.build_atomlist()
            bp.PDBread(fnp)
            r.require(bp.atomlist.dispersion == {"S": None, "CU": None}, "cif-history:pdb-after-cif:dispersion", "a PDB read after CIF reads carries only its own elements",
                      {"S": None, "CU": None}, bp.atomlist.dispersion)
            for hk, hal, hexp in held[-2:]:
                compare_atomlist(r, hk + ":re-verified-after-pdb", hal, hexp, structure, "P21/c")
            r.nontrivial.add("cif-history")
            return r
        if case["kind"] == "cif":
            cell = CELLS[case["cell"]]
            for ci, cfg in enumerate(CONFIGS[case["lo"]:case["hi"]]):
                key = "cif:cell%d:n%d:%s%s" % (case["cell"], case["natoms"], "/".join(str(x) for x in cfg), "" if NUMFMT == "fixed" else ":numfmt=" + NUMFMT)
                txt, exp = gen_cif(cfg, cell=cell, natoms=case["natoms"])
                fn = os.path.join(tmp, "f%d.cif" % ci)
                with open(fn, "w") as f:
                    f.write(txt)
                try:
                    b = structure.build_atomlist()
                    b.CIFread(fn)
                except Exception as ex:
                    r.evals += 1
                    r.violation(key + ":exception", "CIFread raised on a well-formed file", None, repr(ex))
                    continue
                compare_atomlist(r, key, b.atomlist, exp, structure, "P21/c")
                r.nontrivial.add(key)
                r.states += 1
                if (case["lo"] + ci) % 6 == 0 and NUMFMT == "fixed":
                    # the other documented ways of handing the same block to CIFread: by keyword with the block name, CIFopen + CIFread(),
                    # a block opened by this / by another builder passed as cifblk (keyword and positional), and a builder that has read
                    # ANOTHER file before (an occupancy-0.5 / multiplicity file) and is now given this block
                    other_txt, _ = gen_cif(("Uiso", True, True, "_atom_site_symmetry_multiplicity", "disp", False), cell=CELLS[1], natoms=2)
                    fo = os.path.join(tmp, "other.cif")
                    with open(fo, "w") as f:
                        f.write(other_txt)

                    def f_kw():
                        b_ = structure.build_atomlist()
                        b_.CIFread(ciffile=fn, cifblkname="blk")
                        return b_

                    def f_open_read():
                        b_ = structure.build_atomlist()
                        b_.CIFopen(fn)
                        b_.CIFread()
                        return b_

                    def f_own_blk():
                        b_ = structure.build_atomlist()
                        blk = b_.CIFopen(fn, "blk")
                        b_.CIFread(cifblk=blk)
                        return b_

                    def f_foreign_blk():
                        blk = structure.build_atomlist().CIFopen(ciffile=fn)
                        b_ = structure.build_atomlist()
                        b_.CIFread(cifblk=blk)
                        return b_

                    def f_foreign_blk_pos():
                        blk = structure.build_atomlist().CIFopen(fn)
                        b_ = structure.build_atomlist()
                        b_.CIFread(None, None, blk)
                        return b_

                    def f_after_other():
                        blk = structure.build_atomlist().CIFopen(fn)
                        b_ = structure.build_atomlist()
                        b_.CIFopen(fo)
                        b_.CIFread(cifblk=blk)
                        return b_

                    for fname, ff in (("CIFread(ciffile=, cifblkname=)", f_kw), ("CIFopen();CIFread()", f_open_read), ("CIFread(cifblk=own block)", f_own_blk),
                                      ("CIFread(cifblk=block of another builder)", f_foreign_blk), ("CIFread(None, None, block)", f_foreign_blk_pos),
                                      ("CIFopen(other file);CIFread(cifblk=this block)", f_after_other)):
                        try:
                            b2 = ff()
                        except Exception as ex:
                            r.evals += 1
                            r.violation(key + ":" + fname + ":exception", "CIFread raised on a well-formed file", None, repr(ex))
                            continue
                        compare_atomlist(r, key + ":" + fname, b2.atomlist, exp, structure, "P21/c")
                        r.transitions += 1
        elif case["kind"] == "cif-symbols":
            cfg = ("Uiso", False, True, None, "disp", False)
            for key0, sym, csys in pdb_symbols()[case["lo"]:case["hi"]]:
                # a multiplicity the reader COMPUTES rests on the operations tabulated for the symbol: they must at least form a group
                # (exact arithmetic; which group a symbol denotes and what its operations are is C04's subject, decided there in full)
                no_ = O.name_to_setting()[key0][0]
                try:
                    ops_ = O.exact_ops(sg.sg(sgno=no_))
                    closed = O.closed_fast(ops_)
                except Exception:
                    closed = False
                r.require(closed, "cif:symbol=%r:table-is-a-group" % key0, "the operations used to compute site multiplicities for this symbol form a group")
                blank = sym.replace(" 1 ", " ")[:-2] if csys == "monoclinic" else sym  # 'P 1 21/c 1' -> 'P 21/c': CIF carries the short symbol
                for spelled in (key0.upper()[0] + key0[1:], blank, "  ".join(key0)):
                    key = "cif:symbol=%r" % spelled
                    txt, exp = gen_cif(cfg, sym=spelled, cell=CELLS[0], natoms=2)
                    fn = os.path.join(tmp, "s.cif")
                    with open(fn, "w") as f:
                        f.write(txt)
                    try:
                        b = structure.build_atomlist()
                        b.CIFread(fn)
                    except Exception as ex:
                        r.evals += 1
                        r.violation(key + ":exception", "CIFread raised on a well-formed file", None, repr(ex))
                        continue
                    compare_atomlist(r, key, b.atomlist, exp, structure, "".join(spelled.split()))
                    # the symbol must select the same group as the dictionary key
                    try:
                        ok = sg.sg(sgname=b.atomlist.sgname).no == sg.sg(sgname=key0).no
                    except Exception:
                        ok = False
                    r.require(ok, key + ":group", "the symbol read from the file names the same space group", key0, b.atomlist.sgname)
                    r.nontrivial.add(key)
                    r.states += 1
        else:
            tier = case["tier"]
            cells = [((10.0, 12.5, 20.0, 90.0, 90.0, 90.0), "orth"), ((7.123, 9.87, 12.001, 81.25, 97.5, 104.75), "oblique")]
            for key0, sym, csys in pdb_symbols()[case["lo"]:case["hi"]]:
                for cell, cname in cells:
                    A = O.a_ref(list(cell))
                    Ainv = np.linalg.inv(A)
                    shift = np.array([0.0, 0.0, 0.0]) if cname == "orth" else np.array([0.25, 0.0, -0.5])
                    scale = [[float(fmt(Ainv[i, j], 6)) for j in range(3)] + [float(fmt(shift[i], 5))] for i in range(3)]
                    atoms = []
                    occs = [1.0, 0.5, 0.25] if tier == "quick" else [1.0, 0.75, 0.5, 0.25, 0.01]
                    bs = [0.0, 12.34, 99.99, 100.0, 120.5] if tier == "quick" else [0.0, 1.0, 12.34, 50.0, 99.99, 100.0, 120.5, 999.99]
                    ser = 0
                    for (occ, bb), rec in zip(itertools.product(occs, bs), itertools.cycle(["ATOM", "HETATM"])):
                        ser += 1
                        el = ["C", "FE", "O", "S", "CU"][ser % 5]
                        xyz = (round(1.234 * ser - 3.0, 3), round(7.5 - 0.77 * ser, 3), round(0.321 * ser * ser - 2.0, 3))
                        atoms.append((rec, ser, "%s%d" % (el, ser), el, xyz, occ, bb))
                    txt = gen_pdb(sym, cell, scale, atoms)
                    fn = os.path.join(tmp, "p.pdb")
                    with open(fn, "w") as f:
                        f.write(txt)
                    key = "pdb:symbol=%r:%s" % (sym, cname)
                    r.nontrivial.add(key)
                    r.states += 1
                    try:
                        b = structure.build_atomlist()
                        b.PDBread(fn)
                    except Exception as ex:
                        r.evals += 1
                        r.violation(key + ":exception", "PDBread raised on a well-formed file", {"sgname": key0}, repr(ex))
                        continue
                    al = b.atomlist
                    exp_cell = [float("%9.3f" % x) for x in cell[:3]] + [float("%7.2f" % x) for x in cell[3:]]
                    r.require(close(al.cell, exp_cell), key + ":cell", "cell as stated in CRYST1", exp_cell, al.cell)
                    r.require(al.sgname == key0, key + ":sgname", "PDB symbol names the group it denotes ('1' place-holders dropped)", key0, al.sgname)
                    r.require(len(al.atom) == len(atoms), key + ":natoms", "number of ATOM/HETATM records", len(atoms), len(al.atom))
                    S = np.array(scale)
                    for at, (rec, ser, name, el, xyz, occ, bb) in zip(al.atom, atoms):
                        k2 = "%s:atom%d" % (key, ser)
                        pos = S @ np.array([xyz[0], xyz[1], xyz[2], 1.0])
                        r.require(at.label == name and at.atomtype == el, k2 + ":label", "label and element", [name, el], [at.label, at.atomtype])
                        r.check("pdb-pos", float(np.max(np.abs(np.asarray(at.pos, float) - pos))), 1e-12, k2 + ":pos", "fractional = SCALE.[x,y,z,1]", pos, at.pos)
                        r.require(close(at.occ, occ) and at.adp_type == "Uiso" and close(at.adp, bb / P8), k2 + ":adp", "occupancy and B/(8 pi^2)", [occ, bb / P8], [at.occ, at.adp])
                        try:
                            want = structure.multiplicity(pos, key0)
                        except Exception as ex:
                            want = repr(ex)
                        r.require(at.symmulti == want, k2 + ":mult", "computed site multiplicity", want, at.symmulti)
                    r.require(al.dispersion == {a[3]: None for a in atoms}, key + ":dispersion", "no dispersion terms in a PDB file", None, al.dispersion)
    finally:
        shutil.rmtree(tmp, ignore_errors=True)
    r.transitions = r.evals
    return r


def alphabet(tier):
    return {"cif_configs": len(CONFIGS), "cif_cells": 1 if tier == "quick" else 3, "atom_counts": [1, 3, 12], "pdb_symbols": len(pdb_symbols())}


def samples(cases):
    s = pdb_symbols()
    return [cases[0], cases[-1], {"pdb symbols": [x[1] for x in s[:6]] + [x[1] for x in s if x[2] == "trigonal"][:8]}, {"cif config": CONFIGS[100]}]
