"""C18 - reduce_cell returns a primitive cell of the same lattice."""
from __future__ import annotations

import itertools
import math

import numpy as np

from .. import alph
from .. import oracles as O
from ..core import CaseResult

PROP = "C18"
LEVEL = "exploration"
RULE = ("reduced cells (conforming-cell lists and the cell alphabet, kept iff their own basis vectors are the successive minima of the lattice) x "
        "every unimodular integer matrix with entries in {-1,0,1} under which the reduced basis keeps coefficients |u|,|v|,|w| <= 2 in the new "
        "basis (quick: all with at most 4 non-zero entries and every 17th of those with 5-7; thorough: all with at most 7) plus the 20 shears with coefficients +-2 x both modules. Oracle: same volume; the output "
        "lengths are the three successive minima of the lattice (computed in the harness over [-4,4]^3); an integer matrix T with det +-1 "
        "and T'G_in T = G_out exists (search over integer vectors of matching length). distinct_nontrivial = distinct (module, reduced cell, T) "
        "with T != identity.")
ASSUMPTIONS = ["successive minima computed over integer coefficients in [-4,4]^3 (the inputs' reduced bases have coefficients <= 2 by construction)",
               "where lengths tie, only the lengths, the volume and lattice equivalence are asserted (the angles are not unique)",
               "tolerance 1e-9 relative on lengths/volume, 1e-7 degrees on angles of the equivalence search"]

KF = "KF-reduce-cell-transposed"


def unimodular(tier):
    out = []
    dense = []
    for e in itertools.product((0, 1, -1), repeat=9):
        M = np.array(e, dtype=int).reshape(3, 3)
        d = int(round(np.linalg.det(M)))
        if abs(d) != 1:
            continue
        nz = sum(1 for x in e if x)
        if nz > 7:
            continue
        Mi = np.rint(np.linalg.inv(M)).astype(int)
        if np.max(np.abs(Mi)) > 2:
            continue
        if tier == "quick" and nz > 4:
            dense.append(M)  # quick: of the denser matrices (5-7 non-zero entries: settings sheared along two axes at once) every 17th
        else:
            out.append(M)
    out += dense[::17]
    # shears with coefficient +-2 (the reduced vectors then need the coefficient 2 at the edge of the search range)
    for i, j in itertools.permutations(range(3), 2):
        for k in (2, -2):
            M = np.eye(3, dtype=int)
            M[i, j] = k
            out.append(M)
    for k1, k2 in ((2, 1), (-2, 1), (2, -2), (1, -2)):
        M = np.eye(3, dtype=int)
        M[0, 2] = k1
        M[1, 2] = k2
        out.append(M)
        out.append(M.T.copy())
    out.sort(key=lambda M: (int(np.sum(np.abs(M))), M.tolist()))
    return out


def base_cells(tier):
    cs = []
    for sysname, cc in (("triclinic", "standard"), ("monoclinic", "standard"), ("orthorhombic", "standard"), ("tetragonal", "standard"),
                        ("hexagonal", "standard"), ("trigonal", "rhombohedral"), ("cubic", "standard")):
        cs += alph.conforming_cells(sysname, cc, "thorough")
    cs += [[3.0, 10.0, 11.0, 90.0, 90.0, 90.0], [2.5, 9.0, 20.0, 80.0, 85.0, 95.0], [5.0, 6.0, 7.0, 90.0, 90.0, 90.0], [3.0, 4.0, 5.0, 80.0, 95.0, 100.0], [9.07599708738, 6.05007626616, 43.921476668199631, 90.0, 90.0, 90.0], [4.0, 9.0, 30.0, 75.0, 85.0, 95.0]]
    # cells a few 1e-6 degrees inside a reduction boundary: two candidates for one slot differ by ~1e-7 A (not a tie, not far apart either)
    # strongly anisotropic orthogonal lattices (edge ratios 3-4): sheared settings of these put many nearly coplanar candidate triples in play
    cs += [[3.1, 9.2, 11.3, 90.0, 90.0, 90.0], [2.9, 3.3, 12.7, 90.0, 90.0, 90.0]]
    cs += [[5.0, 5.0, 7.0, 90.0, 90.0, 119.999996], [5.0, 5.0, 7.0, 90.0, 90.0, 60.000004], [6.0, 6.0, 6.0, 90.0, 119.999997, 90.0],
           [4.0, 5.0, 7.3, 90.0, 90.0, math.degrees(math.acos(0.4)) + 4e-6]]
    if tier == "thorough":
        # (the shared alphabet's special cells with axis ratios beyond 20 - a 400 A axis next to 3 A - are left to C01: the volume recomputed
        # from six printed parameters of such a cell is only good to ~1e-8, which says nothing about the reduction)
        cs += [c for c in alph.cells("quick", lens=[(3, 4, 5), (5.1, 6.3, 7.7)], angs=[60, 75, 90, 105, 120]) if max(c[:3]) <= 20 * min(c[:3])]
    out = []
    for c in cs:
        if is_reduced(c) and c not in out:
            out.append(c)
    return out


def minima(G, N=4):
    """successive minima (lengths) of the lattice with metric G and the vectors attaining them."""
    vs = [v for v in itertools.product(range(-N, N + 1), repeat=3) if v != (0, 0, 0)]
    V = np.array(vs, float)
    L = np.sqrt(np.einsum("ij,jk,ik->i", V, G, V))
    order = np.argsort(L, kind="stable")
    V, L = V[order], L[order]
    l1 = L[0]
    v1 = V[0]
    l2 = v2 = None
    for v, l in zip(V, L):
        if np.linalg.norm(np.cross(v, v1)) > 0.5:
            l2, v2 = l, v
            break
    l3 = None
    for v, l in zip(V, L):
        if abs(np.linalg.det(np.array([v1, v2, v]))) > 0.5:
            l3 = l
            break
    return (l1, l2, l3), V, L


def is_reduced(cell):
    G = O.metric(cell)
    (l1, l2, l3), V, L = minima(G)
    a, b, c = cell[:3]
    return abs(l1 - a) < 1e-9 * a and abs(l2 - b) < 1e-9 * b and abs(l3 - c) < 1e-9 * c


def cases(tier, seed):
    cs = []
    Ts = unimodular(tier)
    for mod in ("tools", "laue"):
        for cell in base_cells(tier):
            cs.append({"mod": mod, "cell": cell, "tier": tier, "nT": len(Ts)})
    return cs


def equivalent(Gin, Gout):
    """is there an integer T, det +-1, with T' Gin T = Gout ?  (search integer vectors |entries| <= 4 of matching length)"""
    vs = [v for v in itertools.product(range(-4, 5), repeat=3) if v != (0, 0, 0)]
    V = np.array(vs, float)
    Q = np.einsum("ij,jk,ik->i", V, Gin, V)
    cand = []
    for i in range(3):
        m = np.abs(Q - Gout[i, i]) <= 1e-8 * Gout[i, i]
        cand.append(V[m])
    for a in cand[0]:
        for b in cand[1]:
            if abs(a @ Gin @ b - Gout[0, 1]) > 1e-8 * math.sqrt(Gout[0, 0] * Gout[1, 1]):
                continue
            for c in cand[2]:
                if abs(a @ Gin @ c - Gout[0, 2]) > 1e-8 * math.sqrt(Gout[0, 0] * Gout[2, 2]):
                    continue
                if abs(b @ Gin @ c - Gout[1, 2]) > 1e-8 * math.sqrt(Gout[1, 1] * Gout[2, 2]):
                    continue
                if abs(abs(np.linalg.det(np.array([a, b, c]))) - 1) < 1e-9:
                    return True
    return False


def transposed_model(Gin, out):
    """defect model: the returned cell is that of the TRANSPOSE of a matrix whose rows are a reduced basis
    (vectors stored as rows and handed to a_to_cell, which expects columns)."""
    A = np.linalg.cholesky(Gin).T  # any Cartesian frame gives a different transposed cell; the library uses form_a_mat's frame
    return A


def check_case(case):
    import xfab.laue
    import xfab.tools

    mname = case["mod"]
    mod = {"tools": xfab.tools, "laue": xfab.laue}[mname]
    r = CaseResult()
    cell0 = case["cell"]
    G0 = O.metric(cell0)
    (l1, l2, l3), V, L = minima(G0)
    vol0 = math.sqrt(np.linalg.det(G0))
    for T in unimodular(case["tier"]):
        Gin = T.T @ G0 @ T
        cin = O.cell_from_metric(Gin)
        key = "%s:cell=%s:T=%s" % (mname, [round(x, 6) for x in cell0], T.reshape(-1).tolist())
        try:
            out = [float(x) for x in mod.reduce_cell(cin)]
        except Exception as ex:
            r.evals += 1
            r.violation(key + ":exception", "reduce_cell raised on a valid cell", None, repr(ex))
            continue
        r.states += 1
        if not np.array_equal(T, np.eye(3, dtype=int)):
            r.nontrivial.add(key)
        ok_fin = all(math.isfinite(x) for x in out) and all(x > 0 for x in out[:3]) and all(0 < x < 180 for x in out[3:])
        if not ok_fin:
            r.evals += 1
            r.violation(key + ":finite", "six finite cell parameters", None, out)
            continue
        Gout = O.metric(out)
        vol = math.sqrt(max(np.linalg.det(Gout), 0.0))
        r.check("volume", abs(vol - vol0) / vol0, 1e-9, key + ":volume", "same volume", vol0, vol)
        dl = max(abs(out[0] - l1) / l1, abs(out[1] - l2) / l2, abs(out[2] - l3) / l3)
        eq = dl <= 1e-9 and equivalent(Gin, Gout)
        r.evals += 1
        r.upd("lengths", 0.0 if eq else dl)
        if not eq:
            # defect model: rows-as-vectors handed to a_to_cell -> cell of the transposed basis in form_a_mat's Cartesian frame
            model = None
            A = O.a_ref(cin)
            # candidate reduced bases: integer vectors attaining the three minima
            Vi = np.array([v for v in itertools.product(range(-3, 3), repeat=3)], float)
            Li = np.sqrt(np.einsum("ij,jk,ik->i", Vi, Gin, Vi))
            c1 = Vi[np.abs(Li - l1) <= 1e-9 * l1]
            c2 = Vi[np.abs(Li - l2) <= 1e-9 * l2]
            c3 = Vi[np.abs(Li - l3) <= 1e-9 * l3]
            for a in c1:
                for b in c2:
                    if model:
                        break
                    if np.linalg.norm(np.cross(a, b)) < 0.5:
                        continue
                    for c in c3:
                        if abs(np.linalg.det(np.array([a, b, c]))) < 0.5:
                            continue
                        M = np.array([A @ a, A @ b, A @ c])  # rows = vectors
                        Gt = M.T @ M  # what a_to_cell computes when given rows
                        ct = O.cell_from_metric(Gt)
                        if max(abs(ct[i] - out[i]) / (out[i] if i < 3 else 1.0) for i in range(6)) <= 1e-8:
                            model = KF
                            break
            r.violation(key + ":lattice", "output = basis of the same lattice built from the shortest non-coplanar vectors",
                        {"minima": [l1, l2, l3], "input": cin}, out, 1e-9, dl, model=model)
    # history: one cell array reused by the caller with new contents; argument kinds
    from ..core import reuse

    T2 = np.array([[1, 0, -2], [0, 1, 0], [0, 0, 1]])
    c1 = O.cell_from_metric(G0)
    c2 = O.cell_from_metric(T2.T @ (G0 * 4.0) @ T2)  # the same lattice scaled by 2, re-described
    buf = np.array(c1, float)

    def mutate(b):
        b[:] = c2

    def ok(out):
        if isinstance(out, Exception):
            return False
        out = [float(x) for x in out]
        return abs(math.sqrt(max(np.linalg.det(O.metric(out)), 0.0)) - 8 * vol0) <= 1e-9 * 8 * vol0
    reuse(r, "%s:cell=%s:buffer" % (mname, [round(x, 6) for x in cell0]), mod.reduce_cell, buf, mutate, ok,
          "reduce_cell uses the CURRENT contents of a cell array the caller reuses (volume of the second lattice)")
    if all(abs(x - round(x)) < 1e-12 for x in cell0):
        ic = [int(round(x)) for x in cell0]
        base = [float(x) for x in mod.reduce_cell(np.array(ic, float))]
        # (no float32 here: at a tie - |a+b| = |a| in a hexagonal cell - single-precision cosines legitimately settle on another description)
        for kn, arg in (("int64 array", np.array(ic, dtype=np.int64)), ("list of ints", list(ic)), ("tuple of ints", tuple(ic))):
            try:
                out = [float(x) for x in mod.reduce_cell(arg)]
                # a float32 argument is processed in single precision (cos(90 deg) = -4e-8): 1e-4 is the honest bound there
                okk = max(abs(a - b) for a, b in zip(out, base)) <= (1e-4 if kn.startswith("float32") else 1e-9)
            except Exception as ex:
                out, okk = repr(ex), False
            r.require(okk, "%s:cell=%s:arg=%s" % (mname, ic, kn), "reduce_cell gives the same cell for a %s argument" % kn, base, out)
    # the general probe: every container / layout / dtype of the cell, uvw as int / numpy int, positional and by keyword (float32 cells are
    # processed in single precision and the reduction may then settle on another description: single precision left out)
    from ..core import variants

    # history: the caller keeps (and edits) the returned cell; a later call - also for ANOTHER lattice, also of a_to_cell / ubi_to_cell, which
    # reduce_cell's result may share storage with - must not write into it
    from ..core import twice

    twice(r, "%s:cell=%s:reduce_cell" % (mname, [round(x, 6) for x in cell0]), mod.reduce_cell, [float(x) for x in cell0])
    held = mod.reduce_cell([float(x) for x in cell0])
    snap = [float(x) for x in held]
    mod.reduce_cell([4.4, 5.5, 6.6, 85.0, 95.0, 100.0])
    mod.a_to_cell(O.a_ref([7.0, 8.0, 9.0, 80.0, 85.0, 95.0]))
    mod.ubi_to_cell(np.linalg.inv(O.b_ref([7.5, 8.5, 9.5, 81.0, 86.0, 96.0])))
    r.require([float(x) for x in held] == snap, "%s:cell=%s:held-result" % (mname, [round(x, 6) for x in cell0]),
              "a reduced cell already returned is not changed by later calls of reduce_cell / a_to_cell / ubi_to_cell for other lattices", snap, [float(x) for x in held])
    variants(r, "%s:cell=%s:reduce_cell" % (mname, [round(x, 6) for x in cell0]), mod.reduce_cell, [[float(x) for x in cell0], 3], 0, 1e-9, None)
    variants(r, "%s:cell=%s:reduce_cell" % (mname, [round(x, 6) for x in cell0]), mod.reduce_cell, [[float(x) for x in cell0], 3], 1, 1e-9, None,
             skip=("float", "np.float64", "0-d array"))
    r.transitions = r.states
    return r


def alphabet(tier):
    return {"reduced_cells": len(base_cells(tier)), "unimodular_matrices": len(unimodular(tier))}


def samples(cases):
    T = unimodular(cases[0]["tier"])
    return [cases[0], cases[-1], {"T examples": [T[0].tolist(), T[len(T) // 2].tolist(), T[-1].tolist()]}]
