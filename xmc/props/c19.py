"""C19 - parameter sets survive save/load and stay consistent under any call sequence.

Graph mode on real xfab.parameters.parameters objects:
  * BFS to closure: states are de-duplicated by the FULL state of the reference model (every field, type-tagged); the real
    object is compared with the model after every transition through what the public API lets a user observe; every new
    state is re-derived from a fresh object by replaying its history;
  * stateless pass: every operation sequence up to a small length without de-duplication (hidden state would surface);
  * product mode over the value types the file format can carry (save -> load)."""
from __future__ import annotations

import collections
import itertools
import os
import struct
import tempfile

from ..core import CaseResult

PROP = "C19"
LEVEL = "model_checking"
SECOND_SCHEDULE = 0  # stride of the reverse-order history pass (0 = off, 1 = every case)
RULE = ("operations: addpar (name x value x (vary,can_vary) x stepsize), set, set_parameters (0,1,2 keys), set_varylist (every ordered subset of "
        "names, inadmissible ones must raise AssertionError and leave the state unchanged), set_variable_values (right and wrong length), "
        "update_yourself / update_other against objects holding subsets of the names, save-then-load into a fresh object, save-then-load "
        "into the same object, load of a file with hyphenated names; names {a, b_c} (+ d in thorough), values {1, 2.5, 'x', 7} (+ -3, 'P21/c'). "
        "BFS over the real objects to closure with the full object state as canonical form; all sequences of length <= 3 (quick) / 4 "
        "(thorough, reduced alphabet) without de-duplication; observations get / get_parameters / get_variable_values / get_variable_list / "
        "file text at every state. Save/load product over ints, floats (bit patterns), strings and hyphenated names. distinct_nontrivial = "
        "distinct reachable states + distinct value-type cases.")
ASSUMPTIONS = ["in-memory operations are only given values that are not numeric-looking strings (the property defines coercion for loading only)",
               "reference model: a dict plus lists (40 lines) written in this file", "files are written to a private temporary directory"]

Other = type("Other", (), {})


def mk_other(d):
    o = Other()
    for k, v in d:
        setattr(o, k, v)
    return o


def alphabet_ops(tier, reduced=False):
    """BFS alphabet (reduced=False) and the smaller alphabet of the stateless pass (reduced=True)."""
    names = ["a", "b_c"]
    o = []
    addvals = [1] if (tier == "quick" or reduced) else [1, "x"]
    for n in names:
        for v in addvals:
            for vary, can in ((False, False), (False, True), (True, True)):
                o.append(("addpar", n, v, vary, can, 0.1 if can else None))
        o.append(("set", n, 2.5))
    o.append(("set", "a", None))  # None is a legitimate in-memory value (it does not survive the file format, which the model knows)
    o.append(("set_parameters", ()))
    o.append(("set_parameters", (("a", 7),)))
    o.append(("set_parameters", (("a", 7), ("b_c", "x"))))
    for k in range(0, len(names) + 1):
        for vl in itertools.permutations(names, k):
            o.append(("set_varylist", vl))
    o.append(("set_varylist", ("zz",)))
    for vs in ((), (7,), (7, 2.5)):
        o.append(("set_variable_values", vs))
    o.append(("update_yourself", (("a", 7),)))
    o.append(("update_yourself", (("a", 1.0), ("b_c", -0.0))))  # equal to values already present (1, 0.0) but of another type / sign of zero
    o.append(("set", "b_c", 0.0))
    o.append(("update_yourself", (("b_c", "x"), ("zz", 1))))
    o.append(("update_other", ("a",)))
    o.append(("update_other", ("a", "b_c", "zz")))
    o.append(("saveload",))
    o.append(("loadsame",))
    if reduced:
        o.append(("loadfile", "b-c 9\nq-r zz\n"))
        o.append(("loadfile", "a-b-c 4\nb--c 2.5\n"))
        drop = {("set_varylist", ("b_c",)), ("set_varylist", ("a", "b_c")), ("set_variable_values", ()), ("set_parameters", ()), ("update_other", ("a",))}
        o = [op for op in o if op[:2] not in drop and not (op[0] == "addpar" and op[1] == "b_c" and op[3:5] == (False, True))]
    return o


def tag(v):
    if isinstance(v, float):
        return ("float", struct.pack("<d", v).hex())
    return (type(v).__name__, v)


# ----------------------------------------------------------------------------- reference model


class Model(object):
    def __init__(self):
        self.p = {}
        self.vary = []
        self.can = {}
        self.varl = []
        self.steps = {}
        self.pars = {}
        self.other = {}

    @staticmethod
    def coerce_value(v):
        if isinstance(v, str):
            try:
                return int(v)
            except ValueError:
                try:
                    return float(v)
                except ValueError:
                    return v.strip()
        return v

    def coerce(self):
        for k in list(self.p):
            self.p[k] = self.coerce_value(self.p[k])

    def step(self, op):
        k = op[0]
        if k == "addpar":
            _, n, v, vary, can, st = op
            self.p[n] = v
            self.can[n] = can
            if vary and n not in self.vary:
                self.vary.append(n)
            if can and n not in self.varl:
                self.varl.append(n)
                self.steps[n] = st
            self.pars[n] = (n, tag(v), vary, can, st)
        elif k == "set":
            self.p[op[1]] = op[2]
        elif k == "set_parameters":
            self.p.update(dict(op[1]))
            self.coerce()
        elif k == "set_varylist":
            if all(v in self.p and v in self.varl for v in op[1]):
                self.vary = list(op[1])
            else:
                return "AssertionError"
        elif k == "set_variable_values":
            if len(op[1]) != len(self.vary):
                return "AssertionError"
            for n, v in zip(self.vary, op[1]):
                self.p[n] = v
        elif k == "update_yourself":
            d = dict(op[1])
            for n in list(self.p):
                if n in d:
                    self.p[n] = d[n]
        elif k == "update_other":
            self.other = {n: (self.p[n] if n in self.p else None) for n in op[1]}
        elif k == "saveload":
            self.p = {kk.replace("-", "_"): self.coerce_value(str(vv) + "\n") for kk, vv in self.p.items()}
            self.vary, self.can, self.varl, self.steps, self.pars = [], {}, [], {}, {}
        elif k == "loadsame":
            self.p = {**self.p, **{kk.replace("-", "_"): str(vv) + "\n" for kk, vv in self.p.items()}}
            self.coerce()
        elif k == "loadfile":
            for line in op[1].splitlines(True):
                parts = line.split(" ")
                if len(parts) == 2:
                    self.p[parts[0].replace("-", "_")] = parts[1]
            self.coerce()
        return None

    def canon(self):
        return (tuple(sorted((k, tag(v)) for k, v in self.p.items())), tuple(self.vary), tuple(sorted(self.can.items())), tuple(self.varl),
                tuple(sorted((k, tag(v)) for k, v in self.steps.items())), tuple(sorted(self.pars.items())))

    def obs(self):
        """what the API lets a user observe (the comparison with the implementation uses only this)"""
        return (tuple(sorted((k, tag(v)) for k, v in self.p.items())), tuple(tag(self.p[n]) for n in self.vary), tuple(self.varl), tuple(self.vary))

    def file_text(self):
        return "".join("%s %s\n" % (k, str(self.p[k])) for k in sorted(self.p))


# ----------------------------------------------------------------------------- implementation driver


class Impl(object):
    def __init__(self, tmpdir):
        from xfab import parameters as P

        self.P = P
        self.obj = P.parameters()
        self.other = {}
        self.fn = os.path.join(tmpdir, "p.par")

    def step(self, op):
        P, obj = self.P, self.obj
        k = op[0]
        try:
            if k == "addpar":
                obj.addpar(P.par(op[1], op[2], vary=op[3], can_vary=op[4], stepsize=op[5]))
            elif k == "set":
                obj.set(op[1], op[2])
            elif k == "set_parameters":
                obj.set_parameters(dict(op[1]))
            elif k == "set_varylist":
                obj.set_varylist(list(op[1]))
            elif k == "set_variable_values":
                obj.set_variable_values(list(op[1]))
            elif k == "update_yourself":
                obj.update_yourself(mk_other(op[1]))
            elif k == "update_other":
                o = mk_other([(n, None) for n in op[1]])
                obj.update_other(o)
                self.other = {n: getattr(o, n) for n in op[1]}
            elif k == "saveload":
                obj.saveparameters(self.fn)
                self.obj = P.read_par_file(self.fn)
            elif k == "loadsame":
                obj.saveparameters(self.fn)
                obj.loadparameters(self.fn)
            elif k == "loadfile":
                with open(self.fn, "w") as f:
                    f.write(op[1])
                obj.loadparameters(self.fn)
        except AssertionError:
            return "AssertionError"
        except Exception as ex:
            return repr(ex)
        return None

    def canon(self):
        """observable projection through the public API: get_parameters, get_variable_values, get_variable_list and the public
        attribute varylist.  Internal bookkeeping (can_vary, stepsizes, par_objs) is deliberately NOT compared: the property
        does not speak about it, and a refactoring may change it freely."""
        o = self.obj
        try:
            vv = tuple(tag(x) for x in o.get_variable_values())
        except Exception as ex:
            vv = ("exception", repr(ex))
        return (tuple(sorted((k, tag(v)) for k, v in o.get_parameters().items())), vv, tuple(o.get_variable_list()), tuple(getattr(o, "varylist", ())))

    def observe(self, m, r, key):
        o = self.obj
        ok = True
        gp = o.get_parameters()
        ok &= r.require({k: tag(v) for k, v in gp.items()} == {k: tag(v) for k, v in m.p.items()}, key + ":get_parameters", "get_parameters = last values written",
                        sorted(m.p.items(), key=str), sorted(gp.items(), key=str))
        for n in list(m.p) + ["nosuch"]:
            try:
                g = tag(o.get(n))
            except KeyError:
                g = "KeyError"
            w = tag(m.p[n]) if n in m.p else "KeyError"
            ok &= r.require(g == w, key + ":get(%s)" % n, "get(name) = last value written", w, g)
        ok &= r.require([tag(x) for x in o.get_variable_values()] == [tag(m.p[n]) for n in m.vary], key + ":get_variable_values",
                        "varied values follow varylist order", [m.p[n] for n in m.vary], o.get_variable_values())
        ok &= r.require(list(o.get_variable_list()) == m.varl, key + ":get_variable_list", "variable list", m.varl, o.get_variable_list())
        try:
            o.saveparameters(self.fn + ".obs")
            with open(self.fn + ".obs") as f:
                txt = f.read()
        except Exception as ex:
            txt = repr(ex)
        ok &= r.require(txt == m.file_text(), key + ":file", "saved file lists name value pairs sorted by name", m.file_text(), txt)
        return ok


def replay_hist(hist, tmpdir, r=None, key=None, observe=False):
    """fresh real object + fresh model, replay history step by step; compare after every step."""
    im = Impl(tmpdir)
    m = Model()
    for i, op in enumerate(hist):
        before = im.canon()
        e = im.step(op)
        e2 = m.step(op)
        if r is not None:
            r.evals += 1
            if e != e2:
                r.violation("%s:step%d:outcome" % (key, i), "operation outcome (normal / AssertionError) follows the model", e2, e)
            if e2 == "AssertionError" and im.canon() != before:
                r.violation("%s:step%d:unchanged" % (key, i), "a rejected operation leaves the state unchanged", before, im.canon())
            if im.canon() != m.obs():
                r.violation("%s:step%d:state" % (key, i), "observable state (get_parameters, varied values, variable list, varylist) agrees with the dictionary model", m.obs(), im.canon())
            if op[0] == "update_other" and {k: tag(v) for k, v in im.other.items()} != {k: tag(v) for k, v in m.other.items()}:
                r.violation("%s:step%d:other" % (key, i), "update_other copies the current values of the attributes the other object has", m.other, im.other)
    if r is not None and observe:
        im.observe(m, r, key)
    return im, m


def hist_key(hist):
    return "hist=" + ";".join(",".join(repr(x) for x in op) for op in hist)


# value types the format can carry
INTS = [0, -7, 2 ** 31, 2 ** 53 + 1, 10 ** 30, -10 ** 18, 10 ** 310]
FLOATS = [0.1, -0.0, 1.0, 1e22, 5e-324, float("inf"), -float("inf"), 1.7976931348623157e308, 123456.789e-5, 2.5]
STRINGS = ["abc", "", "P21/c", "e5", "x-y", "1.2.3", "--1", "0x10",
           # numbers in other conventions (Fortran D exponent, binary, complex, thousands separators, words) that Python's int()/float() reject
           "7d2", "1D5", "1.5405D-01", "2D", "0b1", "1j", "1,5", "TRUE", "None", "1e", "e", "+", "1_0_"]
NUMSTR = ["12", "-3", "+4", "2.50", "1e3", ".5", "007", " 8"]


def cases(tier, seed):
    cs = [{"kind": "bfs", "tier": tier}]
    L = 3 if tier == "quick" else 4
    n = len(alphabet_ops(tier, reduced=(tier == "thorough")))
    for first in range(n):
        cs.append({"kind": "seq", "tier": tier, "first": first, "L": L})
    cs.append({"kind": "values", "tier": tier})
    return cs


def check_case(case):
    r = CaseResult()
    tier = case["tier"]
    tmp = tempfile.mkdtemp(prefix="xmc_c19_", dir="/dev/shm" if os.path.isdir("/dev/shm") else None)
    try:
        if case["kind"] == "bfs":
            import copy

            OPS = alphabet_ops(tier)
            im0, m0 = Impl(tmp), Model()
            seen = {m0.canon(): []}
            live = {m0.canon(): (im0, m0)}
            frontier = collections.deque([m0.canon()])
            maxd = 0
            while frontier:
                c = frontier.popleft()
                h = seen[c]
                maxd = max(maxd, len(h))
                im_s, m_s = live.pop(c)
                for op in OPS:
                    hh = h + [op]
                    key = hist_key(hh)
                    # expand from a copy of the live real object (cheap); every NEW state is re-derived below from a
                    # fresh object by replaying its whole history, so nothing rests on deepcopy being faithful
                    im = copy.copy(im_s)
                    im.obj = copy.deepcopy(im_s.obj)
                    im.other = {}
                    m = copy.deepcopy(m_s)
                    before = im.canon()
                    e = im.step(op)
                    e2 = m.step(op)
                    r.evals += 1
                    r.transitions += 1
                    bad = False
                    if e != e2:
                        r.violation(key + ":outcome", "operation outcome (normal / AssertionError) follows the model", e2, e)
                        bad = True
                    if e2 == "AssertionError" and im.canon() != before:
                        r.violation(key + ":unchanged", "a rejected operation leaves the state unchanged", before, im.canon())
                        bad = True
                    ci, cm = im.canon(), m.canon()
                    if ci != m.obs():
                        r.violation(key + ":state", "observable state (get_parameters, varied values, variable list, varylist) agrees with the dictionary model", m.obs(), ci)
                        bad = True
                    if op[0] == "update_other" and {k: tag(v) for k, v in im.other.items()} != {k: tag(v) for k, v in m.other.items()}:
                        r.violation(key + ":other", "update_other copies the current values of the attributes the other object has", m.other, im.other)
                        bad = True
                    if bad:
                        continue  # do not explore beyond a disagreement
                    if cm not in seen:
                        # new state: rebuild it from scratch on a fresh real object (whole history), observe everything
                        im2, m2 = replay_hist(hh, tmp, r, key + ":fresh", observe=True)
                        if im2.canon() != ci:
                            r.violation(key + ":replay", "replaying the history on a fresh object reaches the same state", ci, im2.canon())
                            continue
                        seen[cm] = hh
                        live[cm] = (im, m)
                        frontier.append(cm)
                if len(r.viol) > 200:
                    break
            r.states = len(seen)
            r.traces = r.transitions
            r.nontrivial.update("state%d" % i for i in range(len(seen)))
            r.extra = {"states": len(seen), "diameter": maxd, "ops": len(OPS), "deepest": [list(map(repr, op)) for op in max(seen.values(), key=len)],
                       "closed": not frontier}
        elif case["kind"] == "seq":
            OPS = alphabet_ops(tier, reduced=(tier == "thorough"))
            first = OPS[case["first"]]
            n = 0
            for length in range(1, case["L"] + 1):
                for rest in itertools.product(OPS, repeat=length - 1):
                    hh = [first] + list(rest)
                    replay_hist(hh, tmp, r, hist_key(hh), observe=(length == case["L"]))
                    n += 1
                    if len(r.viol) > 50:
                        break
            r.traces = n
            r.transitions = r.evals
            r.extra = {"sequences": n}
            r.nontrivial.add("seq-first:%s" % (first,))
        else:
            from xfab import parameters as P

            vals = [("int", v) for v in INTS] + [("float", v) for v in FLOATS] + [("str", v) for v in STRINGS]
            # numpy.float64 IS a float (subclass): values an optimiser or an array element hands to set()/set_variable_values(); 17 significant
            # digits, so any printing shorter than repr loses bits.  Also run under coarse numpy print options (environment alphabet).
            import math

            import numpy as np

            vals += [("float", np.float64(v)) for v in (1.0 / 3.0, 0.1 + 0.2, math.pi * 1e5, 1e22, 5e-324, -0.0, 2.0 / 3.0 * 1e-7, 123456789.12345679)]
            vals += [("float", np.array([1.0 / 7.0, 2.5])[0]), ("float", np.float64(np.float32(0.1)))]
            if tier == "thorough":
                vals += [("int", v) for v in (2 ** 63, -(10 ** 309), 10 ** 400)] + [("float", v) for v in (1e-310, 2.2250738585072014e-308, 0.30000000000000004)]
            for i, (ty, v) in enumerate(vals):
                for name in ("k", "with_underscore", "hy-phen", "fit-tol-hkl", "-lead-and-trail-"):
                    key = "value:%s:%r:name=%s" % (ty, v, name)
                    fn = os.path.join(tmp, "v.par")
                    p = P.parameters()
                    p.set(name, v)
                    p.set("other", 5)
                    old_po = np.get_printoptions()
                    if i % 2:
                        np.set_printoptions(precision=3, suppress=True)
                    try:
                        p.saveparameters(fn)
                        q = P.read_par_file(fn)
                        got = q.get_parameters()
                    except Exception as ex:
                        r.evals += 1
                        r.violation(key, "save then load raised", None, repr(ex))
                        continue
                    finally:
                        np.set_printoptions(**old_po)
                    want = {name.replace("-", "_"): tag(v), "other": tag(5)}
                    r.require({k: tag(x) for k, x in got.items()} == want, key, "save then load gives back the same name->value mapping (type and bits)", want,
                              {k: tag(x) for k, x in got.items()})
                    r.nontrivial.add(key)
                    r.states += 1
            for s in NUMSTR:
                key = "numstr:%r" % s
                fn = os.path.join(tmp, "n.par")
                with open(fn, "w") as f:
                    f.write("na-me %s\n" % s)
                # a leading blank makes three fields: such a line is not a name/value pair and must be skipped
                q = P.read_par_file(fn)
                got = {k: tag(x) for k, x in q.get_parameters().items()}
                if len(("na-me %s\n" % s).split(" ")) != 2:
                    want = {}
                else:
                    want = {"na_me": tag(Model.coerce_value(s + "\n"))}
                r.require(got == want, key, "on load numeric-looking strings become int when they parse as int, else float; hyphens become underscores", want, got)
                r.nontrivial.add(key)
            # the same name/value lines in the shapes a file written by hand or by another program has: last line without newline, CRLF line
            # ends, a blank line at the end
            lines = [("k", "48.08150101"), ("n_pix", "2048"), ("big", "1.7976931348623157e+308"), ("tenth", "0.1"), ("phase", "Al2O3"), ("neg", "-7")]
            for shape, text in (("no final newline", "\n".join("%s %s" % kv for kv in lines)), ("final newline", "".join("%s %s\n" % kv for kv in lines)),
                                ("CRLF", "".join("%s %s\r\n" % kv for kv in lines)), ("blank last line", "".join("%s %s\n" % kv for kv in lines) + "\n"),
                                ("single line, no newline", "only 12345")):
                fn = os.path.join(tmp, "shape.par")
                with open(fn, "w", newline="") as f:
                    f.write(text)
                want = {"only": tag(12345)} if shape.startswith("single") else {k_: tag(Model.coerce_value(v_)) for k_, v_ in lines}
                for loader in ("read_par_file", "loadparameters"):
                    try:
                        if loader == "read_par_file":
                            q = P.read_par_file(fn)
                        else:
                            q = P.parameters()
                            q.loadparameters(fn)
                        got = {k_: tag(x) for k_, x in q.get_parameters().items()}
                    except Exception as ex:
                        got = repr(ex)
                    r.require(got == want, "fileshape:%s:%s" % (shape, loader), "name/value lines load to the same mapping whatever the line ends / the last line look like", want, got)
                    r.nontrivial.add("fileshape:%s:%s" % (shape, loader))
            # par objects declared once and used to fill several parameters objects (a module-level list of declarations): what one object
            # does with them - any varylist - must not change what the next object starts with
            decl = [("a", 1, False, True, 0.1), ("b_c", 2.5, True, True, 0.2), ("d", "x", False, False, None)]
            canv = [d[0] for d in decl if d[3]]
            for k_ in range(len(canv) + 1):
                for vl in itertools.permutations(canv, k_):
                    pars = [P.par(n_, v_, vary=va, can_vary=cv, stepsize=st) for n_, v_, va, cv, st in decl]
                    first = P.parameters()
                    for po in pars:
                        first.addpar(po)
                    first.set_varylist(list(vl))
                    if vl:
                        first.set_variable_values([7.0 + i_ for i_ in range(len(vl))])
                    second = P.parameters()
                    for po in pars:
                        second.addpar(po)
                    want = ({n_: tag(v_) for n_, v_, _, _, _ in decl}, [tag(v_) for n_, v_, va, _, _ in decl if va], [n_ for n_, _, _, cv, _ in decl if cv])
                    got = ({k2: tag(x) for k2, x in second.get_parameters().items()}, [tag(x) for x in second.get_variable_values()], list(second.get_variable_list()))
                    r.require(got == want, "shared-par-objects:first.set_varylist(%s)" % (list(vl),),
                              "a parameters object filled from par objects that another object has used starts from the declared values and vary flags", want, got)
                    r.nontrivial.add("shared-par:%s" % (vl,))
            # load into an object that already has values: only the listed names change
            p = P.parameters(keep=3, na_me="old")
            fn = os.path.join(tmp, "m.par")
            with open(fn, "w") as f:
                f.write("na-me 12\nnew 1.5\n")
            p.loadparameters(fn)
            r.require({k: tag(x) for k, x in p.get_parameters().items()} == {"keep": tag(3), "na_me": tag(12), "new": tag(1.5)}, "load:merge",
                      "loading merges into the existing mapping", None, p.get_parameters())
            kw = P.parameters(a=1, b="x")
            r.require(kw.get_parameters() == {"a": 1, "b": "x"} and kw.get_variable_list() == [] and kw.get_variable_values() == [], "ctor:kwds", "constructor keywords become parameters")
            r.transitions = r.evals
    finally:
        import shutil

        shutil.rmtree(tmp, ignore_errors=True)
    return r


def post(tier, seed, cases, results):
    b = results[0]["extra"]
    seqs = sum(r["extra"].get("sequences", 0) for r in results)
    return {"_states": b.get("states", 0), "bfs_states": b.get("states"), "bfs_diameter": b.get("diameter"), "bfs_operations": b.get("ops"),
            "deepest_state_history": b.get("deepest"), "stateless_sequences": seqs, "_traces": seqs + results[0]["transitions"],
            "max_sequence_length": 3 if tier == "quick" else 4}


def alphabet(tier):
    return {"operations": len(alphabet_ops(tier)), "stateless_operations": len(alphabet_ops(tier, reduced=(tier == "thorough"))),
            "ints": [str(x) for x in INTS], "floats": [repr(x) for x in FLOATS], "strings": STRINGS}


def samples(cases):
    ops = alphabet_ops(cases[0]["tier"])
    return [{"history": [list(map(repr, ops[5])), list(map(repr, ops[-3])), list(map(repr, ops[20]))]}, cases[1], cases[-1]]
