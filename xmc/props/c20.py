"""C20 - input checks reject exactly the invalid inputs, and only while switched on.

Graph mode: the state is the switch xfab.CHECKS.  Operations are assignments (valid and invalid values) and API
calls on classified inputs.  BFS from the import state to closure, every operation applied in every reachable
state and compared with a two-state reference machine; then a stateless pass over all operation sequences up to
a small length (no state de-duplication) to expose hidden state such as a guard that snapshots the switch."""
from __future__ import annotations

import itertools
import math
import traceback

import numpy as np

from .. import alph
from .. import oracles as O
from ..core import CaseResult

PROP = "C20"
LEVEL = "model_checking"
SECOND_SCHEDULE = 0  # stride of the reverse-order history pass (0 = off, 1 = every case)
RULE = ("state = the switch; operations = 8 assignments (True, False, None, 0, 1, 'True', numpy True_/False_) and calls of u_to_euler, "
        "u_to_rod, u_to_ubi, ubi_to_u, ubi_to_u_and_eps, ub_to_u_b, euler_to_u (tools and laue) and Umis on classified inputs built from the "
        "40 (quick) / 272 (thorough) integer-quaternion rotations: valid, float32-rounded, perturbed by 5e-8 in each entry (valid), "
        "perturbed by 1e-3/1e-2/0.3/1 in each entry (invalid), reflected, left-handed UBI, Euler angles on and outside [0,2pi]. BFS to "
        "closure (every operation in every reachable state) + every operation sequence of length <= 3 (quick) / 4 (thorough) over a "
        "reduced alphabet, executed on the real objects and compared step by step with the two-state reference machine. "
        "distinct_nontrivial = distinct (state, function, input class) triples.")
ASSUMPTIONS = ["'raised by the checks' = ValueError whose innermost xfab frame is xfab/checks.py", "validity per argument kind: orientation-taking "
               "functions reject every non-orthonormal / det != +1 class; UBI/UB-taking functions reject only the left-handed / det < 0 class",
               "an input counts as clearly invalid iff max|U'U-I| or |det-1| > 1e-4 and as clearly valid iff both < 1e-6 (checked for every generated input)",
               "python -O (__debug__ False) is outside the property's histories"]

CELL = [3.0, 4.0, 5.0, 80.0, 95.0, 100.0]
ASSIGN = [("True", True), ("False", False), ("None", None), ("0", 0), ("1", 1), ("'True'", "True"), ("np.True_", np.True_), ("np.False_", np.False_)]


def from_checks(ex):
    tb = traceback.extract_tb(ex.__traceback__)
    xf = [f for f in tb if "/xfab/" in f.filename.replace("\\", "/")]
    return bool(xf) and xf[-1].filename.endswith("checks.py")


def classify(U):
    U = np.asarray(U, float)
    d = max(float(np.max(np.abs(U.T @ U - np.eye(3)))), abs(float(np.linalg.det(U)) - 1))
    if d > 1e-4:
        return "invalid"
    if d < 1e-6:
        return "valid"
    return "unclear"


def matrix_inputs(q, R):
    """(class label, matrix, expected validity as orientation) for one lattice rotation."""
    out = [("valid", R.copy(), True), ("f32", R.astype(np.float32), True), ("f32as64", R.astype(np.float32).astype(float), True)]
    for i, j in itertools.product(range(3), repeat=2):
        V = R.copy()
        V[i, j] += 5e-8
        out.append(("p5e-8[%d%d]" % (i, j), V, True))
    for d in (1e-3, 1e-2, 0.3, 1.0):
        for i, j in itertools.product(range(3), repeat=2):
            V = R.copy()
            V[i, j] += d
            out.append(("p%g[%d%d]" % (d, i, j), V, False))
    if np.all(np.abs(R - np.rint(R)) == 0):
        out.append(("int64", np.rint(R).astype(np.int64), True))
        out.append(("int8", np.rint(R).astype(np.int8), True))
    out.append(("nested-list", R.tolist(), True))
    out.append(("fortran", np.asfortranarray(R), True))
    out.append(("reflected", R @ np.diag([1.0, 1.0, -1.0]), False))
    out.append(("scaled1.001", R * 1.001, False))
    return out


def build_calls(mname, q, R):
    """list of (label, fn, input class, thunk, must_reject_when_on); every call twice: arguments positionally and by their documented
    names (read from the signature)"""
    import xfab.laue
    import xfab.symmetry
    import xfab.tools
    from ..core import param_names

    mod = {"tools": xfab.tools, "laue": xfab.laue}[mname]
    f = 2 * math.pi if mname == "tools" else 1.0
    B = O.b_ref(CELL, f)
    raw = []  # (tag, fn label, input class, function object, args, must_reject)
    for label, M, valid in matrix_inputs(q, R):
        c = classify(M)
        assert (c == "valid") == valid and c != "unclear", (q, label, c)
        tag = "%s:q=%s:%s" % (mname, q, label)
        raw.append((tag, "u_to_euler", label, mod.u_to_euler, (M,), not valid))
        raw.append((tag, "u_to_rod", label, mod.u_to_rod, (M,), not valid))
        raw.append((tag, "u_to_ubi", label, mod.u_to_ubi, (M, CELL), not valid))
        if mname == "tools" and label != "nested-list":  # Umis is documented for numpy arrays and does not convert its arguments
            U0 = alph.quat_to_mat((2, 1, 0, -1))
            raw.append((tag, "Umis.2", label, xfab.symmetry.Umis, (U0, M, 7), not valid))
            raw.append((tag, "Umis.1", label, xfab.symmetry.Umis, (M, U0, 4), not valid))
        # UBI / UB taking functions: a perturbed U.B is still a legitimate UB; only det < 0 must be rejected
        Mf = np.asarray(M, float)
        UB = Mf @ B
        lefth = float(np.linalg.det(UB)) < 0
        try:
            ubi = np.linalg.inv(UB) * f
        except np.linalg.LinAlgError:
            continue
        if abs(float(np.linalg.det(Mf))) < 0.2:
            continue  # nearly singular perturbed matrices are not meaningful UBIs
        raw.append((tag, "ubi_to_u", label, mod.ubi_to_u, (ubi,), lefth))
        raw.append((tag, "ubi_to_u_and_eps", label, mod.ubi_to_u_and_eps, (ubi, CELL), lefth))
        raw.append((tag, "ub_to_u_b", label, mod.ub_to_u_b, (UB,), lefth))
    # valid right-handed UBIs of slightly sheared high-symmetry lattices (shear 1e-6 .. 1e-3 degrees: the small-strain regime) judged
    # against the unsheared reference cell: the orientation derived inside ubi_to_u_and_eps is a rotation, nothing may be rejected
    for cell0, ax in (([4.0, 4.0, 4.0, 90.0, 90.0, 90.0], 5), ([3.0, 3.0, 5.0, 90.0, 90.0, 120.0], 5), ([4.0, 4.0, 6.0, 90.0, 90.0, 90.0], 3), ([5.0, 5.0, 5.0, 60.0, 60.0, 60.0], 4)):
        for dl in (1e-6, 5.7e-5, 2e-4, -5e-4, 1e-3):
            cs_ = list(cell0)
            cs_[ax] += dl
            ubi_s = np.linalg.inv(R @ O.b_ref(cs_, f)) * f
            tag = "%s:q=%s:sheared(%s%+g)" % (mname, q, cell0, dl)
            raw.append((tag, "ubi_to_u_and_eps", "sheared", mod.ubi_to_u_and_eps, (ubi_s, cell0), False))
            raw.append((tag, "ubi_to_u", "sheared", mod.ubi_to_u, (ubi_s,), False))
    # the same valid right-handed UBI written in other length units (1e-10 .. 1e8 x): handedness is a sign, not a size; the left-handed one likewise
    ubi0 = np.linalg.inv(R @ B) * f
    for sc_ in (1e-10, 1e-7, 1e-4, 1e4, 1e8):
        tag = "%s:q=%s:scaled(%g)" % (mname, q, sc_)
        raw.append((tag, "ubi_to_u", "scaled-valid", mod.ubi_to_u, (ubi0 * sc_,), False))
        raw.append((tag + ":rows-swapped", "ubi_to_u", "scaled-lefthanded", mod.ubi_to_u, (ubi0[[1, 0, 2], :] * sc_,), True))
    # explicit left-handed UBI: two rows of a valid UBI swapped
    ubi = np.linalg.inv(R @ B) * f
    sw = ubi[[1, 0, 2], :]
    tag = "%s:q=%s:rows-swapped" % (mname, q)
    raw.append((tag, "ubi_to_u", "lefthanded", mod.ubi_to_u, (sw,), True))
    raw.append((tag, "ubi_to_u_and_eps", "lefthanded", mod.ubi_to_u_and_eps, (sw, CELL), True))
    raw.append((tag, "ub_to_u_b", "lefthanded", mod.ub_to_u_b, (np.linalg.inv(sw) * f,), True))
    calls = []
    for tag, fn, label, fobj, args, rej in raw:
        calls.append((tag, fn, label, (lambda fobj=fobj, args=args: fobj(*args)), rej))
        names = param_names(fobj)
        if names is not None and len(names) >= len(args):
            kw = dict(zip(names, args))
            calls.append((tag + ":by-keyword", fn, label + ":kw", (lambda fobj=fobj, kw=kw: fobj(**kw)), rej))
            if len(args) > 1:  # keywords in reverse order (and the first argument positional, the rest by name)
                kw2 = dict(reversed(list(kw.items())))
                calls.append((tag + ":by-keyword-reversed", fn, label + ":kw-rev", (lambda fobj=fobj, kw2=kw2: fobj(**kw2)), rej))
                kw3 = dict(list(kw.items())[1:])
                calls.append((tag + ":first-positional", fn, label + ":kw-rest", (lambda fobj=fobj, a0=args[0], kw3=kw3: fobj(a0, **kw3)), rej))
    return calls


def euler_calls(mname):
    import xfab.laue
    import xfab.tools

    mod = {"tools": xfab.tools, "laue": xfab.laue}[mname]
    tp = 2 * math.pi
    good = [(0.1, 0.2, 0.3), (0.0, tp, math.pi), (tp, 0.0, tp), (0.0, 0.0, 0.0), (6.0, 3.0, 1e-9), (1.0, 4.0, 2.0),
            (-0.0, 1.0, 2.0), (1.0, -0.0, 2.0), (1.0, 2.0, -0.0), (-0.0, -0.0, -0.0)]  # -0.0 == 0 lies inside [0, 2pi]
    calls = []
    for e in good:
        calls.append(("%s:euler%r" % (mname, e), "euler_to_u", "inrange", (lambda e=e: mod.euler_to_u(*e)), False))
    for slot in range(3):
        for bad in (-1e-3, tp + 1e-3, -1.0, 7.0, 100.0):
            e = [1.0, 1.0, 1.0]
            e[slot] = bad
            e = tuple(e)
            calls.append(("%s:euler%r" % (mname, e), "euler_to_u", "out[%d]=%g" % (slot, bad), (lambda e=e: mod.euler_to_u(*e)), True))
    from ..core import param_names

    names = param_names(mod.euler_to_u)
    if names is not None and len(names) >= 3:
        for (tag, fn, label, thunk, rej) in list(calls):
            e = thunk.__defaults__[0]
            kw = dict(zip(names, e))
            calls.append((tag + ":by-keyword", fn, label + ":kw", (lambda kw=kw: mod.euler_to_u(**kw)), rej))
    return calls


def run_call(thunk):
    """-> ('ok', value) | ('checks', message) | ('ValueError', message) | ('other', repr)
    'checks' = a ValueError whose innermost xfab frame is xfab/checks.py.  Whether a ValueError raised elsewhere counts as a
    rejection by the input checks is decided differentially (does it go away when the switch is off?), see check_call."""
    try:
        v = thunk()
        return "ok", v
    except ValueError as ex:
        if from_checks(ex):
            return "checks", str(ex)
        return "ValueError", str(ex)
    except Exception as ex:
        return "other", repr(ex)


def same_value(a, b):
    if isinstance(a, tuple) and isinstance(b, tuple):
        return len(a) == len(b) and all(same_value(x, y) for x, y in zip(a, b))
    a = np.asarray(a)
    b = np.asarray(b)
    return a.shape == b.shape and bool(np.all((a == b) | (np.isnan(a.astype(float)) & np.isnan(b.astype(float)))))


def impl_state():
    import xfab

    return (bool(xfab.CHECKS.activated), None)


def do_assign(value):
    import xfab

    try:
        xfab.CHECKS.activated = value
        return "set"
    except ValueError:
        return "ValueError"
    except Exception as ex:
        return repr(ex)


def model_assign(state, value):
    if value is True or value is False:
        return value, "set"
    return state, "ValueError"


def goto(state):
    import xfab

    xfab.CHECKS.activated = state


def shared_switch(r):
    import xfab
    import xfab.laue
    import xfab.symmetry
    import xfab.tools

    # informational only: HOW a module reaches the switch is an implementation detail; that the one documented switch governs every
    # module is decided by behaviour (every call in every switch state, below)
    mods = [m for m in (xfab.tools, xfab.laue, xfab.symmetry) if hasattr(m, "CHECKS")]
    r.extra["modules_holding_the_package_switch_object"] = sum(1 for m in mods if m.CHECKS is xfab.CHECKS)


def cases(tier, seed):
    N = 1 if tier == "quick" else 2
    rots = alph.quat_rots(N)
    cs = []
    for mname in ("tools", "laue"):
        for lo in range(0, len(rots), 4):
            cs.append({"kind": "bfs", "mod": mname, "N": N, "lo": lo, "hi": min(len(rots), lo + 4)})
        cs.append({"kind": "bfs-euler", "mod": mname})
    L = 3 if tier == "quick" else 4
    nops = len(seq_alphabet())
    for first in range(nops):
        cs.append({"kind": "seq", "first": first, "L": L})
    return cs


def seq_alphabet():
    """Reduced alphabet for the stateless pass: all 8 assignments + representative calls (valid / invalid per kind)."""
    q = (2, 1, 0, -1)
    R = alph.quat_to_mat(q)
    ops = [("assign", lab, val) for lab, val in ASSIGN]
    keep = {("u_to_euler", "valid"), ("u_to_euler", "p0.3[01]"), ("u_to_rod", "f32"), ("u_to_rod", "reflected"), ("u_to_ubi", "p5e-8[11]"),
            ("u_to_ubi", "p0.001[20]"), ("ubi_to_u", "valid"), ("ubi_to_u", "lefthanded"), ("ubi_to_u_and_eps", "lefthanded"),
            ("ub_to_u_b", "reflected"), ("Umis.2", "p0.01[12]"), ("Umis.1", "valid")}
    for mname in ("tools", "laue"):
        for tag, fn, label, thunk, rej in build_calls(mname, q, R):
            if (fn, label) in keep and (mname == "tools" or fn in ("u_to_euler", "ubi_to_u", "ub_to_u_b")):
                ops.append(("call", "%s:%s" % (tag, fn), thunk, rej))
        for tag, fn, label, thunk, rej in euler_calls(mname):
            if label in ("inrange", "out[1]=6.28419"):
                if tag.endswith("(0.1, 0.2, 0.3)") or rej:
                    ops.append(("call", "%s:%s" % (tag, fn), thunk, rej))
    return ops


def check_call(r, state, key, fn, label, thunk, must_reject, ref_cache):
    """ref_cache[key] = outcome with the switch on (the 'on' pass runs first)."""
    kind, val = run_call(thunk)
    r.evals += 1
    r.transitions += 1
    r.nontrivial.add("%s:%s:%s" % (state, fn, label))
    if state:
        ref_cache[key] = (kind, val)
        if must_reject:
            if kind not in ("checks", "ValueError"):
                r.violation(key + ":on:accepts-invalid", "switch on: an invalid input is rejected with ValueError", "ValueError", [kind, repr(val)[:200]])
        else:
            if kind == "checks":
                r.violation(key + ":on:rejects-valid", "switch on: a valid input must not be rejected", "ok", [kind, repr(val)[:200]])
    else:
        on_kind, on_val = ref_cache.get(key, (None, None))
        if kind == "checks":
            r.violation(key + ":off:raises", "switch off: the input checks must not raise", "no checks error", [kind, val])
        if must_reject and on_kind == "ValueError" and kind == "ValueError" and val == on_val:
            # rejected when on, but by an error that is still raised when off: the rejection is not governed by the switch
            r.violation(key + ":off:same-error", "switch off: the error that rejected the input when on is not raised", "no such error", [kind, val])
        if not must_reject:
            # an error unrelated to the input checks (e.g. u_to_rod at exactly 180 degrees) is the same with the switch on and off;
            # an error that goes away when the switch is off IS an input check, wherever it is raised
            if on_kind in ("ValueError", "other") and (kind, val) != (on_kind, on_val):
                r.violation(key + ":on:rejects-valid", "switch on: a valid input must not be rejected (the error disappears when the switch is off)",
                            [kind, repr(val)[:120]], [on_kind, repr(on_val)[:200]])
            elif on_kind == "ok" and kind != "ok":
                r.violation(key + ":off:fails", "switch off: a valid input returns the same value as with the switch on", "ok", [kind, repr(val)[:200]])
            elif on_kind == "ok" and not same_value(val, on_val):
                r.violation(key + ":off:value", "switch off: same value as with the switch on", repr(on_val)[:300], repr(val)[:300])
    # the call must not change the switch
    if impl_state()[0] != state:
        r.violation(key + ":switch-changed", "a call changed the switch", state, impl_state())
        goto(state)


def check_case(case):
    import xfab

    r = CaseResult()
    start = impl_state()
    try:
        goto(True)
        shared_switch(r)
        if case["kind"] in ("bfs", "bfs-euler"):
            mname = case["mod"]
            if case["kind"] == "bfs":
                calls = []
                for q, R in alph.quat_rots(case["N"])[case["lo"]:case["hi"]]:
                    calls += build_calls(mname, q, R)
            else:
                calls = euler_calls(mname)
            # BFS over the switch states, from the import state (on)
            seen = {True}
            frontier = [True]
            ref_cache = {}
            order = []
            while frontier:
                s = frontier.pop(0)
                order.append(s)
                for lab, val in ASSIGN:
                    goto(s)
                    out = do_assign(val)
                    ms, mout = model_assign(s, val)
                    r.evals += 1
                    r.transitions += 1
                    # (only the public property `activated` is observed; how the object stores it is its own business; that the value read
                    # back is the bool True / False itself and not something merely truthy is part of "its state is the last valid value")
                    import xfab as _x

                    if out != mout or impl_state()[0] != ms or _x.CHECKS.activated is not ms:
                        r.violation("assign:%s:from=%s" % (lab, s), "assignment to the switch follows the two-state machine", [ms, mout], [impl_state(), out])
                    if ms not in seen:
                        seen.add(ms)
                        frontier.append(ms)
                    r.nontrivial.add("%s:assign:%s" % (s, lab))
            # calls in every reachable state; 'on' first so that reference values exist for the 'off' comparison
            for s in sorted(seen, reverse=True):
                goto(s)
                for tag, fn, label, thunk, rej in calls:
                    check_call(r, s, "%s:%s" % (tag, fn), fn, label, thunk, rej, ref_cache)
            # ... and back: on -> off -> on.  What a call does depends on the CURRENT state of the switch only, not on the state in which the
            # same arguments were seen before (a result memoised while the switch was off must not be served once it is on again)
            if True in seen and False in seen:
                goto(True)
                for tag, fn, label, thunk, rej in calls:
                    key = "%s:%s" % (tag, fn)
                    first_on = ref_cache.get(key)
                    kind, val = run_call(thunk)
                    r.evals += 1
                    r.transitions += 1
                    same = first_on is not None and kind == first_on[0] and (kind != "ok" or same_value(val, first_on[1]))
                    if not same:
                        r.violation(key + ":on-again", "switch on -> off -> on: the call behaves as it did the first time the switch was on",
                                    [first_on[0], repr(first_on[1])[:160]] if first_on else None, [kind, repr(val)[:160]])
            # history on argument objects: one float64 array that passes the checks, is then edited in place by the caller to an
            # invalid matrix (must be rejected), and restored (must pass again) - in every reachable switch state
            if case["kind"] == "bfs":
                import xfab.laue
                import xfab.symmetry
                import xfab.tools

                mod = {"tools": xfab.tools, "laue": xfab.laue}[mname]
                q0, R0 = alph.quat_rots(case["N"])[case["lo"]]
                fns = [("u_to_euler", lambda M: mod.u_to_euler(M)), ("u_to_rod", lambda M: mod.u_to_rod(M)), ("u_to_ubi", lambda M: mod.u_to_ubi(M, CELL))]
                if mname == "tools":
                    U0 = alph.quat_to_mat((2, 1, 0, -1))
                    fns += [("Umis.2", lambda M: xfab.symmetry.Umis(U0, M, 7)), ("Umis.1", lambda M: xfab.symmetry.Umis(M, U0, 3))]
                for s in sorted(seen, reverse=True):
                    goto(s)
                    for fname, f in fns:
                        X = np.array(R0, float)
                        seq = [("valid", None), ("edited+0.3", 0.3), ("restored", -0.3), ("edited+0.3 again", 0.3)]
                        for label, d in seq:
                            if d is not None:
                                X[0, 1] += d
                            kind, val = run_call(lambda: f(X))
                            want_reject = s and label.startswith("edited")
                            r.evals += 1
                            r.transitions += 1
                            if (want_reject and kind not in ("checks", "ValueError")) or (not want_reject and kind == "checks"):
                                r.violation("%s:q=%s:%s:reused-array:%s:state=%s" % (mname, q0, fname, label, s),
                                            "the checks look at the CURRENT contents of an array the caller has edited in place since an earlier call",
                                            "checks" if want_reject else "no checks error", kind)
                # two invalid arguments whose defects cancel in the product U1'.U2 (both improper; A and inv(A)')
                if mname == "tools":
                    P = R0 @ np.diag([1.0, 1.0, -1.0])
                    A = R0 @ np.diag([1.0, 1.25, 0.8])
                    combos = [("both improper", P, alph.quat_to_mat((2, 1, 0, -1)) @ np.diag([-1.0, 1.0, 1.0])), ("A and inv(A)'", A, np.linalg.inv(A).T),
                              ("same improper twice", P, P)]
                    for s in sorted(seen, reverse=True):
                        goto(s)
                        for label, M1, M2 in combos:
                            for cs_ in (1, 7):
                                kind, val = run_call(lambda: xfab.symmetry.Umis(M1, M2, cs_))
                                r.evals += 1
                                if bool(s) != (kind in ("checks", "ValueError")):
                                    r.violation("tools:q=%s:Umis:%s:cs%d:state=%s" % (q0, label, cs_, s), "Umis rejects two invalid orientation matrices even when their product is a rotation",
                                                "checks" if s else "no checks error", kind)
            r.states = len(seen)
            r.extra = {"reachable": sorted(map(str, seen))}
        else:
            ops = seq_alphabet()
            L = case["L"]
            first = case["first"]
            nseq = 0
            ref_cache = {}
            # reference outcome of every call in each switch state (validated against the property in the BFS cases)
            ref = {True: {}, False: {}}
            for st_ in (True, False):
                goto(st_)
                for op in ops:
                    if op[0] == "call":
                        ref[st_][op[1]] = run_call(op[2])
            for length in range(1, L + 1):
                for rest in itertools.product(range(len(ops)), repeat=length - 1):
                    seq = (first,) + rest
                    goto(True)
                    s = True
                    nseq += 1
                    for step, oi in enumerate(seq):
                        op = ops[oi]
                        skey = "seq=%s:step%d" % (",".join(ops[i][1] for i in seq), step)
                        if op[0] == "assign":
                            out = do_assign(op[2])
                            s, mout = model_assign(s, op[2])
                            r.evals += 1
                            if out != mout or impl_state()[0] != s:
                                r.violation(skey, "assignment follows the two-state machine", [s, mout], [impl_state(), out])
                                goto(s)
                        else:
                            kind, val = run_call(op[2])
                            r.evals += 1
                            wk, wv = ref[s][op[1]]
                            bad = kind != wk or (kind == "ok" and not same_value(val, wv)) or (kind != "ok" and val != wv)
                            # and the outcome in this state must be the right one: rejected iff on and invalid
                            if s and op[3] and kind not in ("checks", "ValueError"):
                                bad = True
                            if (not s or not op[3]) and kind == "checks":
                                bad = True
                            if impl_state()[0] != s:
                                bad = True
                            if bad:
                                r.violation(skey, "call outcome depends only on the current state of the switch (history-independent)", [s, wk, repr(wv)[:100]],
                                            [impl_state(), kind, repr(val)[:100]])
                                goto(s)
                        r.transitions += 1
            r.traces = nseq
            r.states = 0
            r.nontrivial.add("seq-first:%s" % ops[first][1])
            r.extra = {"sequences": nseq, "ops": len(ops)}
    finally:
        try:
            goto(True)
        except Exception:
            pass
    return r


def post(tier, seed, cases, results):
    seqs = sum(r["extra"].get("sequences", 0) for r in results)
    reach = set()
    for r in results:
        reach.update(r["extra"].get("reachable", []))
    return {"_states": len(reach), "stateless_sequences": seqs, "reachable_states": sorted(reach),
            "sequence_alphabet": [o[1] for o in seq_alphabet()], "max_sequence_length": 3 if tier == "quick" else 4,
            "_traces": seqs + sum(r["transitions"] for r in results if not r["extra"].get("sequences"))}


def alphabet(tier):
    return {"assignments": [a[0] for a in ASSIGN], "rotations": len(alph.quat_rots(1 if tier == "quick" else 2)),
            "input_classes_per_rotation": len(matrix_inputs((1, 0, 0, 0), np.eye(3))) + 1}


def samples(cases):
    ops = seq_alphabet()
    return [cases[0], cases[len(cases) // 2], cases[-1], {"sequence example": [ops[2][1], ops[9][1], ops[1][1], ops[9][1]]}]
