"""Replay one violation artefact without the explorer: python -m xmc.replay <artefact.json>

Re-executes the single stored case against the current tree (XMC_REPO, default /repo) and exits 1 iff
the stored violation (same key) is still reported, 0 otherwise."""
from __future__ import annotations

import importlib
import json
import sys

from . import core


def main(argv=None):
    argv = sys.argv[1:] if argv is None else argv
    if len(argv) != 1:
        print("usage: python -m xmc.replay <artefact.json>")
        return 2
    with open(argv[0]) as f:
        art = json.load(f)
    core.bind_repo()
    mod = importlib.import_module("xmc.props.%s" % art["property"].lower())
    if hasattr(mod, "replay"):
        r = mod.replay(art)
    else:
        r = mod.check_case(art["case"])
    key = art["violation"]["key"]
    hits = [v for v in r.viol if v["key"] == key]
    for v in hits:
        print("STILL VIOLATED property=%s key=%s what=%s expected=%s observed=%s" % (
            art["property"], v["key"], v["what"], json.dumps(v.get("expected"))[:300], json.dumps(v.get("observed"))[:300]))
    if not hits:
        print("not reproduced: key %s holds on %s (other violations in this case: %d)" % (key, core.REPO, len(r.viol)))
    return 1 if hits else 0


if __name__ == "__main__":
    sys.exit(main())
