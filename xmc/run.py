"""CLI: python -m xmc.run <property id> [--tier quick|thorough] [--seed N] [--procs N]"""
from __future__ import annotations

import argparse
import importlib
import os
import sys
import time

from . import core


def main(argv=None):
    ap = argparse.ArgumentParser()
    ap.add_argument("prop")
    ap.add_argument("--tier", default=None)
    ap.add_argument("--seed", type=int, default=None)
    ap.add_argument("--procs", type=int, default=None)
    a = ap.parse_args(argv)
    tier = a.tier or core.tier_from_env()
    seed = a.seed if a.seed is not None else core.seed_from_env()
    if a.procs:
        os.environ["XMC_PROCS"] = str(a.procs)
    prop = a.prop.upper()
    core.bind_repo()
    import numpy as np

    np.random.seed(seed % (2 ** 32))
    mod = importlib.import_module("xmc.props.%s" % prop.lower())
    t0 = time.time()
    if hasattr(mod, "main"):
        return mod.main(tier, seed, t0)
    cases = mod.cases(tier, seed)
    results = core.run_cases(mod, cases)
    # history pass: every case (or every k-th, SECOND_SCHEDULE = k) once more in fresh worker processes, in reverse order
    # and in contiguous blocks, so that each call also happens after a different set of predecessor calls
    stride = getattr(mod, "SECOND_SCHEDULE", 1)
    hist = None
    if stride and len(cases) > 1:
        order = list(range(len(cases)))[::-1][::stride]
        hist = core.merge_second_schedule(results, core.run_cases(mod, cases, order=order, contiguous=True))
        hist["second_schedule"] = "cases %s in descending order, one contiguous block per worker process" % ("all" if stride == 1 else "every %d-th" % stride)
    extra = mod.post(tier, seed, cases, results) if hasattr(mod, "post") else None
    if hist:
        extra = dict(extra or {})
        extra.update(hist)
    kw = {}
    if extra:
        for k in ("states", "transitions", "traces"):
            if "_" + k in extra:
                kw[k] = extra.pop("_" + k)
    return core.finish(mod.PROP, mod.LEVEL, tier, seed, t0, cases, results, mod.RULE, mod.ASSUMPTIONS,
                       alphabet=mod.alphabet(tier) if hasattr(mod, "alphabet") else None,
                       extra_cov=extra, samples=mod.samples(cases) if hasattr(mod, "samples") else None, **kw)


if __name__ == "__main__":
    sys.exit(main())
