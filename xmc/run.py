"""CLI: python -m xmc.run <property id> [--tier quick|thorough] [--seed N] [--procs N]"""
from __future__ import annotations

import argparse
import importlib
import os
import sys
import time

from . import core


def main(argv=None):
    ap = argparse.ArgumentParser()
    ap.add_argument("prop")
    ap.add_argument("--tier", default=None)
    ap.add_argument("--seed", type=int, default=None)
    ap.add_argument("--procs", type=int, default=None)
    a = ap.parse_args(argv)
    tier = a.tier or core.tier_from_env()
    seed = a.seed if a.seed is not None else core.seed_from_env()
    if a.procs:
        os.environ["XMC_PROCS"] = str(a.procs)
    prop = a.prop.upper()
    core.bind_repo()
    import numpy as np

    np.random.seed(seed % (2 ** 32))
    mod = importlib.import_module("xmc.props.%s" % prop.lower())
    t0 = time.time()
    if hasattr(mod, "main"):
        return mod.main(tier, seed, t0)
    cases = mod.cases(tier, seed)
    results = core.run_cases(mod, cases)
    extra = mod.post(tier, seed, cases, results) if hasattr(mod, "post") else None
    kw = {}
    if extra:
        for k in ("states", "transitions", "traces"):
            if "_" + k in extra:
                kw[k] = extra.pop("_" + k)
    return core.finish(mod.PROP, mod.LEVEL, tier, seed, t0, cases, results, mod.RULE, mod.ASSUMPTIONS,
                       alphabet=mod.alphabet(tier) if hasattr(mod, "alphabet") else None,
                       extra_cov=extra, samples=mod.samples(cases) if hasattr(mod, "samples") else None, **kw)


if __name__ == "__main__":
    sys.exit(main())
